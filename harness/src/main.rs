//! Correspondence harness (tie B): runs the implementation on generated cases and prints, per
//! case, the inputs and the implementation's canonicalised result; `modelrun` (the extracted Coq
//! model) evaluates the same inputs and ./check diffs the two.  `primserver` serves the model's
//! cryptographic primitive calls with the same RustCrypto crates the implementation links.
mod aud_sstcp;
mod aud_ssudp;
mod canon;
mod framed;
mod old_ws;
mod prims;
mod rng;
mod t1_adapters;
mod t1_addr;
mod t1_config;
mod t1_hshake;
mod t1_misc;
mod t1_pw;
mod t1_sstcp;
mod t1_stress;
mod t1_ssudp;
mod t1_vmess;
mod util;

use std::io::{BufWriter, Write};

/// print one case line: args, "=>", result fields of the implementation
pub fn emit_case(w: &mut dyn Write, args: &[String], exec: fn(&[&str]) -> Vec<String>) {
    let f: Vec<&str> = args.iter().map(|s| s.as_str()).collect();
    let r = exec(&f);
    writeln!(w, "{}\t=>\t{}", args.join("\t"), r.join("\t")).unwrap();
}

fn exec_case(f: &[&str]) -> Vec<String> {
    match f[0] {
        "pw" => t1_pw::exec(f),
        "adapt" => t1_adapters::exec(f),
        "sstcp" => t1_sstcp::exec(f),
        "stress" => t1_stress::exec(f),
        "ssudp" => t1_ssudp::exec(f),
        "vmbody" | "vmsrv" | "vmcli" | "vmrt" | "vmauthlen" => t1_vmess::exec(f),
        "trojsrv" | "trojcu" | "trojenc" | "trojsenc" | "s5ir" | "s5cr" | "s5irs" | "s5crs" | "s5udp" | "s5udpo" | "s5udpenc" | "http" => t1_misc::exec(f),
        "hshake" => t1_hshake::exec(f),
        "s5enc" | "s5dec" | "s5try" | "vmw" | "vmr" => t1_addr::exec(f),
        "cfgcipher" | "cfgproto" | "cfgmode" | "cfgkind" | "cfgobj" | "cfgkdf" | "cfgb64" | "cfgkeys" | "cfguser" | "cfgpath" | "cfgvmess" | "cfgvmid" | "cfgfield" | "cfgraw" => t1_config::exec(f),
        _ => vec![format!("UNKNOWN-COMPONENT {}", f[0])],
    }
}

fn main() {
    let args: Vec<String> = std::env::args().collect();
    if args.len() < 2 {
        eprintln!("usage: verif-harness primserver | gen <component> <quick|thorough> <seed> <outfile> | run <casefile>");
        std::process::exit(2);
    }
    match args[1].as_str() {
        "primserver" => prims::serve(),
        "run" => {
            // re-execute case lines (arguments only, anything from "=>" on is ignored) read from a file
            util::quiet_panics();
            let text = std::fs::read_to_string(&args[2]).expect("case file");
            let mut out = BufWriter::new(std::io::stdout());
            for line in text.lines() {
                let all: Vec<&str> = line.split('\t').collect();
                let f: Vec<&str> = all.iter().copied().take_while(|x| *x != "=>").collect();
                if f.is_empty() {
                    continue;
                }
                let r = exec_case(&f);
                writeln!(out, "{}\t=>\t{}", f.join("\t"), r.join("\t")).unwrap();
            }
            out.flush().unwrap();
        }
        "gen" => {
            let comp = args[2].as_str();
            let thorough = args[3] == "thorough";
            let seed: u64 = args[4].parse().expect("seed");
            let mut out: Box<dyn Write> = if args.len() > 5 { Box::new(BufWriter::new(std::fs::File::create(&args[5]).expect("outfile"))) } else { Box::new(BufWriter::new(std::io::stdout())) };
            util::quiet_panics();
            match comp {
                "pw" => t1_pw::generate(&mut out, seed, thorough),
                "vmess" => t1_vmess::generate(&mut out, seed, thorough),
                "stress" => t1_stress::generate(&mut out, seed, thorough),
                "sstcp" => t1_sstcp::generate(&mut out, seed, thorough),
                "ssudp" => t1_ssudp::generate(&mut out, seed, thorough),
                "trojan" => t1_misc::generate_trojan(&mut out, seed, thorough),
                "socks5" => t1_misc::generate_socks5(&mut out, seed, thorough),
                "http" => t1_misc::generate_http(&mut out, seed, thorough),
                "addr" => t1_addr::generate(&mut out, seed, thorough),
                "hshake" => t1_hshake::generate(&mut out, seed, thorough),
                "config" => t1_config::generate(&mut out, seed, thorough),
                "adapters" => t1_adapters::generate(&mut out, seed, thorough),
                _ => {
                    eprintln!("unknown component {}", comp);
                    std::process::exit(2);
                }
            }
            out.flush().unwrap();
        }
        _ => {
            eprintln!("unknown subcommand");
            std::process::exit(2);
        }
    }
}
