//! C09 stress: concurrent flows on OS threads sharing the process-wide state (the Shadowsocks salt cache inside a
//! shared `Context`, the process-wide UDP cipher cache): every flow's result must equal its solo run, and of K
//! identical handshakes presented at the same moment exactly one is accepted.  Direct oracle, no model comparison.
//!
//! stress \t flows \t <threads> \t <flows per thread> \t <seed>      => OK <n flows> | MISMATCH ... | PANIC
//! stress \t samesalt \t <threads> \t <rounds> \t <seed>             => OK accepted=1 x rounds | ACCEPTED <k> in round r
//! stress \t udp \t <threads> \t <packets per thread> \t <seed>       => OK | MISMATCH
use std::io::Write;
use std::sync::{Arc, Barrier};

use bytes::BytesMut;
use octo_squirrel::codec::aead::CipherKind;
use octo_squirrel::codec::shadowsocks::tcp::{AEADCipherCodec, Context, Identity, Session};
use octo_squirrel::codec::shadowsocks::udp as ssudp;
use octo_squirrel::protocol::shadowsocks::Mode;

use crate::canon::parse_addr;
use crate::rng::Rng;
use crate::util::catch;

fn request(rng: &mut Rng, key: [u8; 32], payload: &[u8]) -> (Vec<u8>, [u8; 32]) {
    let ctx = Context::new(key, vec![], CipherKind::Aead2022Blake3Aes256Gcm, None);
    let salt: [u8; 32] = rng.bytes(32).try_into().unwrap();
    let session = Session::new(Mode::Client, Identity { salt, request_salt: None, user: None }, Some(parse_addr("4:7f000001:80")));
    let mut codec = AEADCipherCodec::<32>::default();
    let mut dst = BytesMut::new();
    codec.encode(&ctx, &session, BytesMut::from(payload), &mut dst).unwrap();
    (dst.to_vec(), salt)
}

fn serve(ctx: &Context<32>, wire: &[u8]) -> Result<Vec<u8>, String> {
    let mut session = Session::new(Mode::Server, Identity::default(), None);
    let mut codec = AEADCipherCodec::<32>::default();
    let mut buf = BytesMut::from(wire);
    let mut out = Vec::new();
    for _ in 0..(wire.len() + 3) {
        match codec.decode(ctx, &mut session, &mut buf) {
            Ok(Some(it)) => out.extend_from_slice(&it),
            Ok(None) => break,
            Err(e) => return Err(crate::canon::classify(&e).to_string()),
        }
    }
    Ok(out)
}

pub fn exec(f: &[&str]) -> Vec<String> {
    let threads: usize = f[2].parse().unwrap();
    let n: usize = f[3].parse().unwrap();
    let seed: u64 = f[4].parse().unwrap();
    let r = catch(|| match f[1] {
        "flows" => {
            let mut rng = Rng::new(seed);
            let key: [u8; 32] = rng.bytes(32).try_into().unwrap();
            let shared = Arc::new(Context::new(key, vec![], CipherKind::Aead2022Blake3Aes256Gcm, None));
            let jobs: Vec<Vec<(Vec<u8>, Vec<u8>)>> = (0..threads)
                .map(|_| {
                    (0..n)
                        .map(|_| {
                            let len = rng.range(1, 3000) as usize;
                            let payload = rng.bytes(len);
                            (request(&mut rng, key, &payload).0, payload)
                        })
                        .collect()
                })
                .collect();
            let barrier = Arc::new(Barrier::new(threads));
            let handles: Vec<_> = jobs
                .into_iter()
                .map(|job| {
                    let shared = shared.clone();
                    let barrier = barrier.clone();
                    std::thread::spawn(move || {
                        barrier.wait();
                        let mut bad = 0;
                        for (wire, payload) in job {
                            // solo run on a private context = what the flow would have produced alone
                            let solo = serve(&Context::new(key, vec![], CipherKind::Aead2022Blake3Aes256Gcm, None), &wire);
                            let conc = serve(&shared, &wire);
                            if conc != solo || conc.as_deref() != Ok(&payload[..]) {
                                bad += 1;
                            }
                        }
                        bad
                    })
                })
                .collect();
            let bad: usize = handles.into_iter().map(|h| h.join().unwrap_or(1_000_000)).sum();
            if bad == 0 { format!("OK {}", threads * n) } else { format!("MISMATCH {}", bad) }
        }
        "samesalt" => {
            let mut rng = Rng::new(seed);
            let key: [u8; 32] = rng.bytes(32).try_into().unwrap();
            let shared = Arc::new(Context::new(key, vec![], CipherKind::Aead2022Blake3Aes256Gcm, None));
            for round in 0..n {
                let (wire, _) = request(&mut rng, key, b"same handshake presented concurrently");
                let wire = Arc::new(wire);
                let barrier = Arc::new(Barrier::new(threads));
                let handles: Vec<_> = (0..threads)
                    .map(|_| {
                        let (shared, wire, barrier) = (shared.clone(), wire.clone(), barrier.clone());
                        std::thread::spawn(move || {
                            barrier.wait();
                            serve(&shared, &wire).is_ok() as usize
                        })
                    })
                    .collect();
                let accepted: usize = handles.into_iter().map(|h| h.join().unwrap_or(100)).sum();
                if accepted != 1 {
                    return format!("ACCEPTED {} in round {}", accepted, round);
                }
            }
            format!("OK accepted=1 x {}", n)
        }
        "ttl" => {
            // witness of a salt cache TTL shorter than the acceptance span: a request stamped now+30 is accepted, and accepted
            // AGAIN after `threads` seconds of real time (the cache uses the monotonic clock) although its timestamp is still
            // within 30 s of the (hooked) wall clock.  Only run when the tie-A obligation TTL >= 2 x window is broken.
            let wait = threads as u64;
            let mut rng = Rng::new(seed);
            let key: [u8; 32] = rng.bytes(32).try_into().unwrap();
            let shared = Context::new(key, vec![], CipherKind::Aead2022Blake3Aes256Gcm, None);
            let t0: i64 = 1_790_000_000;
            octo_squirrel::verif_clock::set(Some(t0 + 30));
            let (wire, _) = request(&mut rng, key, b"stamped 30 s ahead");
            octo_squirrel::verif_clock::set(Some(t0));
            let a = serve(&shared, &wire).is_ok();
            let b = serve(&shared, &wire).is_ok();
            std::thread::sleep(std::time::Duration::from_secs(wait));
            octo_squirrel::verif_clock::set(Some(t0 + wait as i64));
            let c = serve(&shared, &wire).is_ok();
            octo_squirrel::verif_clock::set(None);
            format!("first={} replay_at_once={} replay_after_{}s={}", a, b, wait, c)
        }
        "evict" => {
            // KNOWN FINDING F-10d probe: the salt cache holds `threads` (= capacity, 102400) entries; after that many other
            // accepted handshakes within the TTL the first salt has been evicted and its replay is accepted again
            let mut rng = Rng::new(seed);
            let key: [u8; 32] = rng.bytes(32).try_into().unwrap();
            let shared = Context::new(key, vec![], CipherKind::Aead2022Blake3Aes256Gcm, None);
            let (first, _) = request(&mut rng, key, b"first");
            let a = serve(&shared, &first).is_ok();
            let b = serve(&shared, &first).is_ok();
            for _ in 0..threads {
                let (w, _) = request(&mut rng, key, b"x");
                let _ = serve(&shared, &w);
            }
            let c = serve(&shared, &first).is_ok();
            format!("first={} replay_at_once={} replay_after_{}_others={}", a, b, threads, c)
        }
        "udp" => {
            // many threads encode/decode datagrams of DIFFERENT sessions and keys through the process-wide cipher cache
            let mut rng = Rng::new(seed);
            let barrier = Arc::new(Barrier::new(threads));
            let handles: Vec<_> = (0..threads)
                .map(|t| {
                    let key = rng.bytes(32);
                    let sid = rng.next();
                    let barrier = barrier.clone();
                    let mut trng = rng.fork();
                    std::thread::spawn(move || {
                        let kind = if t % 2 == 0 { CipherKind::Aead2022Blake3Aes256Gcm } else { CipherKind::Aead2022Blake3ChaCha20Poly1305 };
                        let ikeys: Vec<[u8; 32]> = vec![];
                        let enc = ssudp::SessionCodec::<32>::new(ssudp::Context::new(Mode::Client, None, &key, &ikeys), ssudp::AEADCipherCodec::new(kind));
                        let dec = ssudp::SessionCodec::<32>::new(ssudp::Context::new(Mode::Server, None, &key, &ikeys), ssudp::AEADCipherCodec::new(kind));
                        barrier.wait();
                        let mut bad = 0;
                        for p in 0..n {
                            let len = trng.range(0, 1200) as usize;
                            let payload = trng.bytes(len);
                            let mut dst = BytesMut::new();
                            let session = ssudp::Session::new(sid, 0, p as u64 + 1, None);
                            if enc.encode((BytesMut::from(&payload[..]), parse_addr("4:7f000001:53"), session), &mut dst).is_err() {
                                bad += 1;
                                continue;
                            }
                            match dec.decode(&mut dst) {
                                Ok(Some((c, _, s))) if c[..] == payload[..] && s.client_session_id == sid && s.packet_id == p as u64 + 1 => {}
                                _ => bad += 1,
                            }
                        }
                        bad
                    })
                })
                .collect();
            let bad: usize = handles.into_iter().map(|h| h.join().unwrap_or(1_000_000)).sum();
            if bad == 0 { format!("OK {}", threads * n) } else { format!("MISMATCH {}", bad) }
        }
        _ => "UNKNOWN".into(),
    });
    vec![r.unwrap_or_else(|_| "PANIC".into())]
}

pub fn generate(w: &mut dyn Write, seed: u64, thorough: bool) {
    octo_squirrel::verif_clock::set(None);
    let (rounds, per) = if thorough { (2000, 3000) } else { (300, 400) };
    for (i, threads) in [2usize, 4, 8, 16].iter().enumerate() {
        crate::emit_case(w, &["stress".into(), "flows".into(), threads.to_string(), per.to_string(), (seed + i as u64).to_string()], exec);
        crate::emit_case(w, &["stress".into(), "samesalt".into(), threads.to_string(), rounds.to_string(), (seed + 10 + i as u64).to_string()], exec);
        crate::emit_case(w, &["stress".into(), "udp".into(), threads.to_string(), per.to_string(), (seed + 20 + i as u64).to_string()], exec);
    }
}
