#!/usr/bin/env python3
"""developer helper, to be run after tools/t1diff.sh: evaluates ./check's comparison (cmp_with_oracle: correspondence
with the model, then the direct oracles @x / @p / @n / never-PANIC on the implementation's own result) over the cases
t1diff.sh left in $VERIF_ROOT/.cache/t1diff, prints a tally per kind and the first failing case lines (shortened), and
writes the complete failing lines to .cache/t1diff/failing (replayable with `verif-harness run`).
usage: aud_vm_oracle.py [max-shown]"""
import importlib.machinery, importlib.util, os, sys

ROOT = os.environ.get("VERIF_ROOT", os.path.dirname(os.path.dirname(os.path.abspath(__file__))))
loader = importlib.machinery.SourceFileLoader("check_mod", os.path.join(ROOT, "check"))
spec = importlib.util.spec_from_loader("check_mod", loader)
chk = importlib.util.module_from_spec(spec)
loader.exec_module(chk)

W = os.path.join(ROOT, ".cache", "t1diff")
cases = open(os.path.join(W, "cases")).read().split("\n")
if cases and cases[-1] == "":
    cases.pop()
model = open(os.path.join(W, "model")).read().split("\n")
if model and model[-1] == "":
    model.pop()
if len(model) != len(cases):
    print("model lines %d != case lines %d (model crashed?)" % (len(model), len(cases)))
shown = int(sys.argv[1]) if len(sys.argv) > 1 else 10
tally = {}
bad = []
metas = {}
for line, m in zip(cases, model):
    args, impl = chk.split_case(line)
    meta = args[-1][:2] if args and args[-1].startswith("@") else "--"
    metas[(args[0], meta)] = metas.get((args[0], meta), 0) + 1
    r = chk.cmp_with_oracle(args, impl, m)
    if r:
        tally[r[0]] = tally.get(r[0], 0) + 1
        bad.append((r, line, m))
print("%d cases; by component/oracle: %s" % (len(cases), " ".join("%s/%s=%d" % (k[0], k[1], v) for k, v in sorted(metas.items()))))
print("failing: %d %s" % (len(bad), tally))
with open(os.path.join(W, "failing"), "w") as f:
    for r, line, m in bad:
        f.write(line + "\n")
for r, line, m in bad[:shown]:
    args, impl = chk.split_case(line)
    print("--", r[0], r[1][:300])
    print("   args:", " ".join(a if len(a) < 90 else a[:60] + "...(%d)" % len(a) for a in args))
