#!/usr/bin/env python3
"""developer helper: self-test of tie A's UDP adapter layer (gen_udp_adapters / Generated/UdpAdapters.v).
Copies /repo HEAD to a scratch directory, applies the two seeded regressions (seeded/C09-b, seeded/C02-b), a set of
HARMLESS edits (renamed parameters, re-wrapped signatures, added log lines, to_owned for clone, destructuring for .0,
renamed locals at the call sites) and a set of HARMFUL ones, regenerates into a scratch directory each time and prints
    SAME | DIFFERENT <changed table rows> | RAISE <the [UdpAdapters] anchor error>
Expected: every neutral edit SAME, every harmful one DIFFERENT or RAISE.  With --coq the DIFFERENT tables are also
put through the Coq build of Properties/C02.v + C09.v (in coq/, restored afterwards) and the first error is shown.
Never touches /repo; never runs ./check."""
import subprocess, sys, os, shutil, tempfile
HERE=os.path.dirname(os.path.abspath(__file__)); ROOT=os.path.join(HERE,"..")
R=tempfile.mkdtemp(prefix="udpad-src-"); O=tempfile.mkdtemp(prefix="udpad-out-")
subprocess.run("git -C /repo archive HEAD | tar -x -C %s && cd %s && git init -q . && git add -A && git -c user.email=a@b -c user.name=x commit -qm base" % (R,R), shell=True, check=True)
GEN=os.path.join(ROOT,"coq","Generated","UdpAdapters.v")
CLEAN=open(GEN).read()
COQ="--coq" in sys.argv
def reset(): subprocess.run(["git","-C",R,"checkout","-q","."],check=True)
def edit(rel, pairs):
    p=os.path.join(R,rel); s=open(p).read()
    for a,b in pairs:
        assert a in s, (rel,a)
        s=s.replace(a,b)
    open(p,"w").write(s)
def run(name, kind):
    for f in os.listdir(O): os.remove(os.path.join(O,f))
    env=dict(os.environ, VERIF_REPO=R, VERIF_GEN_OUT=O)
    err=subprocess.run([sys.executable, os.path.join(HERE,"gen_from_source.py")],env=env,capture_output=True,text=True).stderr
    mine=[l for l in err.splitlines() if "[UdpAdapters]" in l]
    g=os.path.join(O,"UdpAdapters.v")
    if mine: out="RAISE: "+mine[0][:330]
    elif not os.path.exists(g): out="NOFILE "+err[:200]
    elif open(g).read()==CLEAN: out="SAME"
    else:
        new=open(g).read().splitlines(); old=CLEAN.splitlines()
        out="DIFFERENT "+" || ".join(l.strip()[:150] for l in new if l not in old)
        if COQ:
            open(GEN,"w").write(open(g).read())
            try:
                r=subprocess.run("timeout 900 make -k -j8 Properties/C02.vo Properties/C09.vo 2>&1 | grep -A2 '^File' | head -3", shell=True, cwd=os.path.join(ROOT,"coq"), capture_output=True, text=True).stdout
            finally:
                open(GEN,"w").write(CLEAN)
            out+="\n      coq: "+(" ".join(r.split()) or "BUILD PASSES")
    ok = (out.startswith("SAME")) == (kind=="neutral")
    print("%-5s %-7s %-4s %s" % (name, kind, "ok" if ok else "BAD", out)); return ok
CV="octo-squirrel-client/src/client/vmess.rs"; CS="octo-squirrel-client/src/client/shadowsocks.rs"; CT="octo-squirrel-client/src/client/trojan.rs"
TP="octo-squirrel-client/src/client/template.rs"; CL="octo-squirrel-client/src/client.rs"
SS="octo-squirrel-server/src/server/shadowsocks.rs"; ST="octo-squirrel-server/src/server/trojan.rs"; SV="octo-squirrel-server/src/server/vmess.rs"
tests=[]
def T(name, kind, *edits): tests.append((name,kind,edits))
# ---------- harmless ----------
T("H1","neutral",(CV,[("pub fn new_key(sender: SocketAddr, target: &Address) -> (SocketAddr, Address) {\n        (sender, target.clone())","pub fn new_key(from: SocketAddr, dst: &Address) -> (SocketAddr, Address) {\n        (from, dst.clone())"),
                     ("pub fn to_inbound_recv(item: BytesMut, recipient: &Address, sender: SocketAddr) -> (DatagramPacket, SocketAddr) {\n        ((item, recipient.clone()), sender)","pub fn to_inbound_recv(data: BytesMut, dst: &Address, from: SocketAddr) -> (DatagramPacket, SocketAddr) {\n        ((data, dst.clone()), from)")]),
              (CT,[("pub fn new_key(sender: SocketAddr, _: &Address) -> SocketAddr {\n        sender","pub fn new_key(from: SocketAddr, _dst: &Address) -> SocketAddr {\n        from")]))
T("H2","neutral",(CV,[("pub fn new_key(sender: SocketAddr, target: &Address) -> (SocketAddr, Address) {\n        (sender, target.clone())\n    }","pub fn new_key(\n        sender: SocketAddr,\n        target: &Address,\n    ) -> (SocketAddr, Address) {\n        (\n            sender,\n            target.clone(),\n        )\n    }"),
                      ("pub fn to_outbound_send(item: DatagramPacket, _: SocketAddr) -> BytesMut {\n        item.0","pub fn to_outbound_send(\n        item: DatagramPacket,\n        _: SocketAddr,\n    ) -> BytesMut {\n        // only the payload\n        item\n            .0")]))
T("H3","neutral",(CV,[("        (sender, target.clone())","        debug!(\"[udp] key for {} -> {}\", sender, target);\n        (sender, target.clone())"),
                      ("        let codec = new_codec(target, config)?;\n        template::new_plain_outbound","        log::debug!(\"[udp] new outbound for {}\", target);\n        let codec = new_codec(target, config)?;\n        template::new_plain_outbound")]),
              (CS,[("        let (item, _) = item;\n        (item, sender)","        let (item, _) = item;\n        trace!(\"[udp] reply for {}\", sender);\n        (item, sender)")]))
T("H4","neutral",(CV,[("(sender, target.clone())","(sender, target.to_owned())"),("((item, recipient.clone()), sender)","((item, recipient.to_owned()), sender)"),("security, addr.clone(), &config.password","security, addr.to_owned(), &config.password")]),
              (CT,[("Socks5CommandType::UdpAssociate as u8, target.clone());\n        let quic_config","Socks5CommandType::UdpAssociate as u8, target.to_owned());\n        let quic_config")]))
T("H5","neutral",(CV,[("        item.0\n","        let (content, _) = item;\n        content\n")]))
T("H6","neutral",(CS,[("        let (item, _) = item;\n        (item, sender)","        let ((content, addr), _peer) = item;\n        let packet = (content, addr);\n        (packet, sender)"),
                      ("        let (content, target) = item;\n        ((content, target), proxy)","        (item, proxy)")]))
T("H7","neutral",(TP,[("Some(Ok(((content, target), sender))) = local_client.next() => {\n                let key = new_key(sender, &target);","Some(Ok(((data, dst), from))) = local_client.next() => {\n                let key = new_key(from, &dst);"),
                      ("new_out(&target, &context)","new_out(&dst, &context)"),("((content, target), sender), _key, out","((data, dst), from), _key, out"),("to_outbound_send((content, target), server_addr)).await {","to_outbound_send((data, dst), server_addr)).await {"),
                      ("let _target = target.clone();","let made_for = target.clone();"),("&_target, sender)","&made_for, sender)")]))
T("H8","neutral",(SS,[("fn associate_key<const N: usize>(replay_protected: bool, session: &Session<N>, client_addr: SocketAddr) -> AssociateKey {\n    (session.client_session_id, session.user.as_ref().map(|u| u.identity_hash), if replay_protected { None } else { Some(client_addr) })",
                       "fn associate_key<const N: usize>(rp: bool, s: &Session<N>, from: SocketAddr) -> AssociateKey {\n    (\n        s.client_session_id,\n        s.user.as_ref().map(|user| user.identity_hash),\n        if rp { None } else { Some(from) },\n    )")]))
T("H9","neutral",(ST,[("        let peer_addr = address::decode(src)?;\n        let len = src.get_u16();\n        src.advance(trojan::CR_LF.len());\n        Ok(Some(InboundIn::RelayUdp(src.split_to(len as usize), peer_addr)))",
                       "        let dst = address::decode(src)?;\n        let n = src.get_u16();\n        src.advance(trojan::CR_LF.len());\n        let content = src.split_to(n as usize);\n        trace!(\"[udp] packet for {}\", dst);\n        Ok(Some(InboundIn::RelayUdp(content, dst)))")]))
T("H10","neutral",(SS,[("Ok(Some((content, peer_addr, session))) => {\n                                    let key = associate_key(replay_protected, &session, client_addr);\n                                    let msg = (content, peer_addr, session);","Ok(Some((data, dst, sess))) => {\n                                    let key = associate_key(replay_protected, &sess, client_addr);\n                                    let msg = (data, dst, sess);"),
                       ("let resolved_addr = match peer_addr.to_socket_addr() {\n                                Ok(addr) => addr,","let resolved_addr = match peer_addr.to_socket_addr() {\n                                Ok(a) => a,")]))
# ---------- harmful ----------
T("M1","harmful",(CS,[("        let (item, _) = item;\n        (item, sender)","        let ((content, _), _) = item;\n        ((content, recipient.clone()), sender)"),("to_inbound_recv(item: (DatagramPacket, SocketAddr), _: &Address,","to_inbound_recv(item: (DatagramPacket, SocketAddr), recipient: &Address,")]))
T("M2","harmful",(CS,[("pub fn new_key(from: SocketAddr, _: &Address) -> SocketAddr {\n        from","pub fn new_key(from: SocketAddr, t: &Address) -> (SocketAddr, Address) {\n        (from, t.clone())")]))
T("M3","harmful",(TP,[("to_inbound_recv(outbound_recv, &_target, sender)","to_inbound_recv(outbound_recv, &_target, server_addr)")]))
T("M4","harmful",(CL,[("                Ok,\n                vmess::udp::new_key,\n                vmess::udp::new_quic_outbound,","                Ok,\n                trojan::udp::new_key,\n                vmess::udp::new_quic_outbound,")]))
T("M5","harmful",(SS,[("(session.client_session_id, session.user.as_ref().map(|u| u.identity_hash), if replay_protected","(session.client_session_id, if replay_protected")]))
T("M6","harmful",(ST,[("Ok(Some(InboundIn::RelayUdp(src.split_to(len as usize), peer_addr)))","Ok(Some(InboundIn::RelayUdp(src.split_to(len as usize), self.first.clone().unwrap_or(peer_addr))))")]))
T("M7","harmful",(CV,[("pub fn new_codec(addr: &Address, config","pub fn new_codec(_: &Address, config"),("security, addr.clone(), &config.password","security, Address::default(), &config.password")]))
T("M8","harmful",(CV,[("        item.0\n","        let mut b = item.0;\n        b.clear();\n        BytesMut::new()\n")]))
T("M9","harmful",(CT,[("        let (content, target) = item;\n        (content, target)","        let (content, _) = item;\n        (content, Address::default())")]))
T("M10","harmful",(SV,[("Ok(Some(InboundIn::RelayUdp(msg, header.address.clone())))\n                } else {\n                    Ok(None)\n                }\n            }\n        }\n    }\n\n    fn decode_body","Ok(Some(InboundIn::RelayUdp(msg, session.first_addr.clone())))\n                } else {\n                    Ok(None)\n                }\n            }\n        }\n    }\n\n    fn decode_body")]))
T("M11","harmful",(TP,[("let key = new_key(sender, &target);","let key = new_key(server_addr, &target);")]))
T("M12","harmful",(SS,[("if replay_protected { None } else { Some(client_addr) })\n}","None)\n}")]))
T("M13","harmful",(CV,[("        ((item, recipient.clone()), sender)","        ((item, Address::default()), sender)")]))
only=[a for a in sys.argv[1:] if not a.startswith("--")]
allok=True
try:
    for pch,kind in (("C09-b","harmful"),("C02-b","harmful")):
        if only and pch not in only: continue
        reset(); subprocess.run(["git","-C",R,"apply",os.path.join(ROOT,"seeded",pch,"patch.diff")],check=True)
        allok &= run(pch,kind)
    for name,kind,edits in tests:
        if only and name not in only: continue
        reset()
        for rel,pairs in edits: edit(rel,pairs)
        allok &= run(name,kind)
finally:
    shutil.rmtree(R,ignore_errors=True); shutil.rmtree(O,ignore_errors=True)
    if COQ:
        subprocess.run("timeout 900 make -j8 Properties/C02.vo Properties/C09.vo >/dev/null 2>&1", shell=True, cwd=os.path.join(ROOT,"coq"))
print("ALL AS EXPECTED" if allok else "UNEXPECTED RESULTS")
sys.exit(0 if allok else 1)
