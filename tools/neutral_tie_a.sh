#!/bin/sh
# developer helper: neutral_tie_a.sh <patch.diff> -- does a (supposedly behaviour-preserving) patch disturb tie A?
# Applies the patch to a scratch worktree of /repo, regenerates the Generated/*.v files into a scratch directory and
# compares them with a generation from the clean tree.  Output: SAME | DIFFERENT <files> | ANCHOR-MISSING ...
P=$(realpath "$1"); T=$(dirname "$(realpath "$0")")/gen_from_source.py; W=/tmp/neutral-wt-$$; A=/tmp/neutral-a-$$; B=/tmp/neutral-b-$$
git -C /repo worktree add -q $W HEAD || exit 2
mkdir -p $A $B
VERIF_REPO=$W VERIF_GEN_OUT=$A python3 $T 2>$A/err; ra=$?
(cd $W && git apply "$P") || { echo "patch does not apply"; git -C /repo worktree remove --force $W; rm -rf $A $B; exit 2; }
VERIF_REPO=$W VERIF_GEN_OUT=$B python3 $T 2>$B/err; rb=$?
if [ $rb -ne 0 ]; then echo "ANCHOR-MISSING (rc=$rb, clean rc=$ra):"; cat $B/err; else
  d=$(diff -rq -x err $A $B | awk '{print $2}' | xargs -n1 basename 2>/dev/null | tr '\n' ' ')
  [ -z "$d" ] && echo SAME || { echo "DIFFERENT $d"; diff -r -x err $A $B | head -${2:-20}; }
fi
git -C /repo worktree remove --force $W; rm -rf $A $B
