#!/usr/bin/env python3
"""developer helper: t1oracle.py <casefile> [component]  -- evaluate ./check's DIRECT oracles (never PANIC/LIVELOCK, @x/@p/@n, RT-BAD,
ORACLE-BAD) on the implementation column of a case file written by `verif-harness gen`, without the model (tools/t1diff.sh does
the model comparison).  Uses the very functions of ./check."""
import importlib.machinery, importlib.util, os, sys, collections
here = os.path.dirname(os.path.abspath(__file__))
loader = importlib.machinery.SourceFileLoader("check_mod", os.path.join(here, "..", "check"))
spec = importlib.util.spec_from_loader("check_mod", loader)
chk = importlib.util.module_from_spec(spec)
loader.exec_module(chk)
bad = collections.Counter()
shown = 0
n = 0
for line in open(sys.argv[1]):
    args, impl = chk.split_case(line)
    n += 1
    if args and args[0] == "ssudp":
        r = chk.cmp_last(args, impl, impl[-1] if impl else "")
    elif args and args[0] == "pw":
        r = ("oracle", "impl=%s set-oracle=%s" % (impl[0][:60], impl[1][:60])) if len(impl) > 1 and impl[0] != impl[1] else None
    else:
        r = chk.direct_oracle(args, impl)
    if r:
        bad[r[0]] += 1
        if shown < int(os.environ.get("SHOW", "10")):
            shown += 1
            print("BAD", r[0], r[1][:200], "| case:", "\t".join(a[:70] for a in args)[:400])
print("%d cases, oracle failures: %s" % (n, dict(bad) or 0))
