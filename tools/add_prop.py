#!/usr/bin/env python3
"""developer helper: add_prop.py Cxx 'Import.Mod Import.Mod2' name=lemma:doc ...  -- append obligations to coq/Properties/Cxx.v"""
import sys, re, os
pid, imports = sys.argv[1], sys.argv[2].split()
items = []
for a in sys.argv[3:]:
    nm, rest = a.split("=", 1)
    lemma, doc = rest.split(":", 1)
    items.append((nm, lemma, doc))
p = os.path.join(os.path.dirname(os.path.abspath(__file__)), "..", "coq", "Properties", pid + ".v")
s = open(p).read()
for imp in imports:
    if not re.search(r"\b" + re.escape(imp) + r"\b", s):
        s = re.sub(r"(From Octo Require Import [^.]*(?:\.[A-Za-z_0-9]+[^.]*)*)\.\n", lambda m: m.group(1) + " " + imp + ".\n", s, count=1)
i = min(x for x in (s.find("\nCheck "), s.find("\nPrint Assumptions ")) if x >= 0) + 1
defs = "".join("(* %s *)\nDefinition %s_%s := @%s.\n" % (d, pid, n, l) for n, l, d in items)
checks = "".join("Check @%s_%s.\n" % (pid, n) for n, l, d in items)
s = s[:i] + defs + "\n" + checks + s[i:]
s += "".join("Print Assumptions %s_%s.\n" % (pid, n) for n, l, d in items)
open(p, "w").write(s)
