#!/usr/bin/env python3
"""Regenerate coq/Properties/pins/<id>.txt for the given property ids exactly as `VERIF_REPIN=1 ./check <id>` does
(statements_text of ./check on the coqc output of the thin Properties file), without running the rest of ./check.
usage: tools/repin.py C11 C02 ...   (the .vo files of the imports must be built)"""
import os, re, subprocess, sys
ROOT = os.path.dirname(os.path.dirname(os.path.abspath(__file__)))
COQ = os.path.join(ROOT, "coq")
src = open(os.path.join(ROOT, "check")).read()
m = re.search(r"^def statements_text\(coqc_out\):.*?(?=^def )", src, re.S | re.M)
ns = {"re": re}
exec(m.group(0), ns)
for pid in sys.argv[1:]:
    r = subprocess.run(["timeout", "300", "coqc", "-Q", ".", "Octo", "-w", "-notation-overridden", "Properties/%s.v" % pid],
                       cwd=COQ, stdout=subprocess.PIPE, stderr=subprocess.STDOUT, text=True)
    if r.returncode != 0:
        sys.exit("%s does not compile: %s" % (pid, r.stdout[-600:]))
    cur = ns["statements_text"](r.stdout)
    pin = os.path.join(COQ, "Properties", "pins", pid + ".txt")
    old = open(pin).read().strip() if os.path.exists(pin) else None
    open(pin, "w").write(cur + "\n")
    print(pid, "unchanged" if old == cur else "REPINNED")
