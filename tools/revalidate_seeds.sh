#!/bin/sh
# developer helper: re-run every kept seeded change (seeded/Cxx*/patch.diff that still applies to /repo HEAD) against the quick check of
# its property; one line per seed: CAUGHT / MISSED / STALE.  Needs /repo exclusively (applies and reverts each patch).
cd /verif || exit 2
for d in seeded/C[0-9][0-9] seeded/C[0-9][0-9]-[bc]; do
  [ -f $d/patch.diff ] || continue
  p=$(basename $d | cut -c1-3)
  if ! git -C /repo apply --check $PWD/$d/patch.diff 2>/dev/null; then echo "STALE  $d"; continue; fi
  out=$(tools/try_seed.sh $PWD/$d/patch.diff $p 2>&1)
  if echo "$out" | grep -q "^VIOLATION property=$p"; then echo "CAUGHT $d $(echo "$out" | grep -c '^VIOLATION') violation line(s)"; else echo "MISSED $d"; echo "$out" | tail -3; fi
done
