#!/usr/bin/env python3
"""Validation of the machinery against the defects it was built on: for every `fix:` commit of /repo (known_findings.json,
status=fixed) revert that commit in /repo's working tree (git revert -n), run the check of the property it belongs to
(and any extra checks named on the command line), record whether a VIOLATION is reported and with which replay, and
restore /repo (git reset --hard).  Commits whose revert conflicts with later repairs are recorded as 'conflict'.
Usage: revert_validation.py [--only F-id,...] [--out FILE]"""
import json, os, subprocess, sys, time
ROOT = os.path.dirname(os.path.dirname(os.path.abspath(__file__)))
REPO = "/repo"

def sh(cmd, **kw):
    p = subprocess.run(cmd, shell=isinstance(cmd, str), stdout=subprocess.PIPE, stderr=subprocess.STDOUT, text=True, **kw)
    return p.returncode, p.stdout

def main():
    only = None
    out = os.path.join(ROOT, "seeded", "reverts.json")
    a = sys.argv[1:]
    if "--only" in a:
        only = set(a[a.index("--only") + 1].split(","))
    if "--out" in a:
        out = a[a.index("--out") + 1]
    kf = json.load(open(os.path.join(ROOT, "known_findings.json")))["findings"]
    head = sh(["git", "-C", REPO, "rev-parse", "HEAD"])[1].strip()
    assert sh(["git", "-C", REPO, "status", "--porcelain"])[1].strip() == "", "/repo must be clean"
    results = []
    try:
        results = json.load(open(out))
    except Exception:
        pass
    done = {r["id"] for r in results}
    for f in kf:
        if f.get("status") != "fixed" or (only and f["id"] not in only) or f["id"] in done:
            continue
        rc, o = sh(["git", "-C", REPO, "revert", "-n", "--no-edit", f["commit"]])
        rec = {"id": f["id"], "commit": f["commit"], "property": f["property"], "what": f["what"]}
        if rc != 0:
            rec["outcome"] = "conflict"
            sh(["git", "-C", REPO, "revert", "--abort"]); sh(["git", "-C", REPO, "reset", "--hard", head])
            results.append(rec); json.dump(results, open(out, "w"), indent=1); continue
        rc, o = sh(["cargo", "build", "--offline", "--quiet"], cwd=REPO)
        if rc != 0:
            rec["outcome"] = "does-not-compile"
        else:
            t0 = time.time()
            rc, o = sh([os.path.join(ROOT, "check"), f["property"]], cwd=ROOT)
            lines = [l for l in o.splitlines() if l.startswith("VIOLATION")]
            rec["outcome"] = "detected" if rc == 1 and lines else "MISSED"
            rec["violation_lines"] = lines[:3]
            rec["seconds"] = round(time.time() - t0)
            for l in lines[:1]:
                p = l.split("replay=")[1].split()[0]
                try:
                    r = json.load(open(p)); rec["replay_kind"] = r.get("kind"); rec["component"] = r.get("component"); rec["detail"] = str(r.get("detail"))[:200]
                except Exception:
                    pass
        sh(["git", "-C", REPO, "reset", "--hard", head])
        results.append(rec)
        json.dump(results, open(out, "w"), indent=1)
        print(rec["id"], rec["outcome"], rec.get("replay_kind"), rec.get("component"), flush=True)
    sh(["git", "-C", ROOT, "checkout", "--", "evidence"])

if __name__ == "__main__":
    main()
