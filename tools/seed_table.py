#!/usr/bin/env python3
"""print the DESIGN.md 11.7 tables from seeded/*/meta.json and seeded/reverts.json"""
import json, glob, os
R = os.path.dirname(os.path.dirname(os.path.abspath(__file__)))
print("| seed | property | needs, in order to manifest | caught by | history |")
print("|---|---|---|---|---|")
for m in sorted(glob.glob(os.path.join(R, "seeded", "*", "meta.json"))):
    j = json.load(open(m)); d = os.path.basename(os.path.dirname(m))
    print("| seeded/%s | %s | %s | %s | %s |" % (d, j["property"], j["needs_to_manifest"], j.get("detecting_component", j.get("detected_by", "")), j.get("history", "caught by the check as it stood")))
print()
print("| finding | fix commit | property | outcome of reverting it | first replay |")
print("|---|---|---|---|---|")
for r in json.load(open(os.path.join(R, "seeded", "reverts.json"))):
    how = ("%s/%s" % (r.get("replay_kind"), r.get("component") or "-")) if r.get("replay_kind") else ""
    print("| %s | %s | %s | %s | %s |" % (r["id"], r["commit"], r["property"], r["outcome"], "; ".join(x for x in (how, r.get("note", "")) if x)))
