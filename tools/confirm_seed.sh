#!/bin/sh
# confirm_seed.sh <worktree> <id> <demo test name or script> <package> [rustflags]: independent confirmation of a seeded change:
# (1) builds, (2) existing suite passes with the change, (3) demo fails with the change, (4) demo passes without it.
W=$1; ID=$2; DEMO=$3; PKG=$4; FLAGS=$5
cd $W || exit 2
export CARGO_NET_OFFLINE=true
R=out/confirm.txt; : > $R
git apply --check -R out/patch.diff 2>/dev/null || git apply out/patch.diff
cargo build --offline --workspace >/dev/null 2>&1 && echo "build_with_change=ok" >> $R || echo "build_with_change=FAIL" >> $R
# existing suite = everything except the demo target
cargo test --workspace --no-fail-fast --offline 2>&1 | grep -E "^test result|^test .* FAILED" > out/suite.txt
grep -v "demo" out/suite.txt | grep -q "FAILED" && echo "suite_with_change=FAIL" >> $R || echo "suite_with_change=ok" >> $R
case "$DEMO" in
  *.py) python3 $DEMO >/dev/null 2>&1 && echo "demo_with_change=passes(UNEXPECTED)" >> $R || echo "demo_with_change=fails" >> $R ;;
  *) RUSTFLAGS="$FLAGS" cargo test --offline -p $PKG --test $DEMO >/dev/null 2>&1 && echo "demo_with_change=passes(UNEXPECTED)" >> $R || echo "demo_with_change=fails" >> $R ;;
esac
git apply -R out/patch.diff
case "$DEMO" in
  *.py) cargo build --offline --workspace >/dev/null 2>&1; python3 $DEMO >/dev/null 2>&1 && echo "demo_without_change=passes" >> $R || echo "demo_without_change=FAILS(UNEXPECTED)" >> $R ;;
  *) RUSTFLAGS="$FLAGS" cargo test --offline -p $PKG --test $DEMO >/dev/null 2>&1 && echo "demo_without_change=passes" >> $R || echo "demo_without_change=FAILS(UNEXPECTED)" >> $R ;;
esac
git apply out/patch.diff
cat $R
