#!/usr/bin/env python3
"""developer helper: self-test of tie A's README layer (gen_readme / Generated/Readme.v / Proofs/ReadmeFacts.v).
Copies /repo HEAD to a scratch directory, edits the copy's README.md (HARMFUL: a cipher row removed or added, a tick
moved, a mark changed, a mode option added, the default moved, a protocol or a column renamed, the `ucp` row respelled,
an optional section changed; SHAPE: a table the parser does not understand; NEUTRAL: table padding / alignment /
prose re-wrapped), regenerates into a scratch directory each time (VERIF_REPO / VERIF_GEN_OUT) and prints
    SAME | RAISE <the [Readme] error> | DIFFERENT <changed lines> + the first Coq error of Generated/Readme.v, Proofs/ReadmeFacts.v
Expected: every neutral edit SAME; every harmful one RAISE or a Coq error in Proofs/ReadmeFacts.v.
The Coq step runs in a scratch symlink copy of coq/ (which must be built: Model/Config.vo, Spec/Readme.vo).
Never touches /repo or coq/; never runs ./check.  Scratch directories are removed at the end."""
import subprocess, sys, os, shutil, tempfile, glob
HERE = os.path.dirname(os.path.abspath(__file__)); ROOT = os.path.abspath(os.path.join(HERE, ".."))
SRC = os.environ.get("VERIF_REPO", "/repo")
R = tempfile.mkdtemp(prefix="readme-src-"); O = tempfile.mkdtemp(prefix="readme-out-"); C = tempfile.mkdtemp(prefix="readme-coq-")
subprocess.run("git -C %s archive HEAD | tar -x -C %s" % (SRC, R), shell=True, check=True)
BASE = open(os.path.join(R, "README.md"), encoding="utf-8").read()
CLEAN = open(os.path.join(ROOT, "coq", "Generated", "Readme.v"), encoding="utf-8").read()
# scratch Coq tree: symlinks to coq/, with the two modules under test as real files (their outputs must not write through a link)
CQ = os.path.join(C, "coq")
subprocess.run(["cp", "-rs", os.path.join(ROOT, "coq"), CQ], check=True)
for pat in ["Generated/Readme.*", "Generated/.Readme.*", "Proofs/ReadmeFacts.*", "Proofs/.ReadmeFacts.*"]:
    for f in glob.glob(os.path.join(CQ, pat)):
        os.remove(f)
shutil.copy(os.path.join(ROOT, "coq", "Proofs", "ReadmeFacts.v"), os.path.join(CQ, "Proofs", "ReadmeFacts.v"))


def coq(text):
    open(os.path.join(CQ, "Generated", "Readme.v"), "w", encoding="utf-8").write(text)
    for vf in ["Generated/Readme.v", "Proofs/ReadmeFacts.v"]:
        r = subprocess.run(["timeout", "300", "coqc", "-Q", ".", "Octo", "-w", "-notation-overridden", vf], cwd=CQ, capture_output=True, text=True)
        if r.returncode != 0:
            msg = " ".join((r.stdout + r.stderr).split())
            return "coq FAILS: " + msg[:230]
    return "coq: BUILD PASSES"


def run(name, kind, pairs):
    s = BASE
    for a, b in pairs:
        assert s.count(a) == 1, (name, a, s.count(a))
        s = s.replace(a, b)
    open(os.path.join(R, "README.md"), "w", encoding="utf-8").write(s)
    for f in os.listdir(O):
        os.remove(os.path.join(O, f))
    env = dict(os.environ, VERIF_REPO=R, VERIF_GEN_OUT=O)
    p = subprocess.run([sys.executable, os.path.join(HERE, "gen_from_source.py")], env=env, capture_output=True, text=True)
    mine = [l for l in p.stderr.splitlines() if "[Readme]" in l]
    others = [l for l in p.stderr.splitlines() if "ANCHOR-MISSING" in l and "[Readme]" not in l]
    g = os.path.join(O, "Readme.v")
    if mine:
        out, caught = "RAISE: " + mine[0][:260], True
    elif not os.path.exists(g):
        out, caught = "NOFILE " + p.stderr[:200], True
    elif open(g, encoding="utf-8").read() == CLEAN:
        out, caught = "SAME", False
    else:
        new = open(g, encoding="utf-8").read(); old = CLEAN.splitlines()
        c = coq(new)
        out = "DIFFERENT " + " || ".join(l.strip()[:110] for l in new.splitlines() if l not in old)[:330] + "\n        " + c
        caught = c.startswith("coq FAILS") and "ReadmeFacts.v" in c
    if others:
        out += "\n        (other generators: %s)" % others[0][:120]
    ok = {"neutral": out.startswith("SAME"), "harmful": caught, "shape": out.startswith("RAISE"), "unused": out.startswith("DIFFERENT") and not caught}[kind]
    print("%-4s %-8s %-4s %s" % (name, kind, "ok" if ok else "BAD", out))
    return ok


T = []
# ---------- harmful: the documented contract changed ----------
T.append(("M1", "harmful", [("| aes-256-gcm                   |   `C` `S`   |         |\n", "")]))                                   # cipher row removed
T.append(("M2", "harmful", [("| chacha20-poly1305             |", "| aes-192-gcm                   |   `C` `S`   |         |\n| chacha20-poly1305             |")]))  # cipher row added
T.append(("M3", "harmful", [("| aes-128-gcm                   |   `C` `S`   | `C` `S` |", "| aes-128-gcm                   |   `C` `S`   |   `C`   |")]))     # a mark removed
T.append(("M4", "harmful", [("| aes-256-gcm                   |   `C` `S`   |         |", "| aes-256-gcm                   |   `C` `S`   | `C` `S` |")]))     # VMess column ticked
T.append(("M5", "harmful", [("|   `udp`    |     `tls`     |             |   ✔   |   ✔    |", "|   `udp`    |     `tls`     |             |   ✔   |        |")]))  # tick removed
T.append(("M6", "harmful", [("|   `udp`    |     `tcp`     |             |   ✔   |        |", "|   `udp`    |     `tcp`     |      ✔      |   ✔   |        |")]))  # tick added
T.append(("M7", "harmful", [("|   `tcp`    |    `quic`     |      ✔      |   ✔   |   ✔    |\n", "")]))                               # transport row removed
T.append(("M8", "harmful", [("|   `ucp`    |    `quic`     |", "|   `udp`    |    `quic`     |")]))                                    # the README's typo corrected: the reading must go
T.append(("M9", "harmful", [('options are "tcp"(default), "udp", "tcp_and_udp"\n', 'options are "tcp"(default), "udp", "tcp_and_udp", "quic"\n')]))   # client mode added
T.append(("M10", "harmful", [('"tcp_and_udp", "tcp_and_quic", priority', '"tcp_and_udp", "tcp_and_quic", "udp_and_quic", priority')]))        # server mode added
T.append(("M11", "harmful", [('options are "tcp"(default), "udp", "tcp_and_udp"\n', 'options are "tcp", "udp"(default), "tcp_and_udp"\n')]))   # default moved
T.append(("M12", "harmful", [('"tcp"(default), "udp", "quic", "tcp_and_udp"', '"tcp"(default), "quic", "tcp_and_udp"')]))                      # server mode removed
T.append(("M13", "harmful", [('> protocol: "shadowsocks" | "vmess" | "trojan"', '> protocol: "shadowsocks" | "vmess" | "trojan-go"')]))       # protocol renamed
T.append(("M14", "harmful", [('> protocol: "shadowsocks" | "vmess" | "trojan"', '> protocol: "shadowsocks" | "vmess" | "trojan" | "socks"')]))  # protocol added
T.append(("M15", "harmful", [("| Local-Peer | Client-Server | Shadowsocks | VMess | Trojan |", "| Local-Peer | Client-Server | Shadowsocks | Trojan | VMess |")]))  # columns swapped
T.append(("M16", "harmful", [("|                               | Shadowsocks |  VMess  |", "|                               | Shadowsocks | Trojan  |")]))       # cipher column renamed
T.append(("M17", "harmful", [("|   `tcp`    |     `wss`     |", "|   `tcp`    |     `h2`      |")]))                                    # unknown transport name
T.append(("M18", "harmful", [("> ssl: (OPTIONAL) SSL specific", "> ssl: SSL specific")]))                                               # section no longer optional
T.append(("M19", "harmful", [("   > > keyFile: private key file for encryption\n\n", "")]))                                            # a documented key removed
T.append(("M20", "harmful", [("`C` for client `S` for server", "`C` for server `S` for client")]))                                     # legend swapped
# ---------- shapes the parser refuses ----------
T.append(("S1", "shape", [("|   `udp`    |     `udp`     |      ✔      |       |        |", "|   `udp`    |     `udp`     |      x      |       |        |")]))
T.append(("S2", "shape", [("|   `udp`    |     `ws`      |             |   ✔   |        |", "|   `udp`    |     `ws`      |             |   ✔   |")]))
T.append(("S3", "shape", [("`C` for client `S` for server\n", "")]))
T.append(("S4", "shape", [("### Ciphers", "### Cipher suites")]))
T.append(("S5", "shape", [("| aes-128-gcm                   |   `C` `S`   | `C` `S` |", "| aes-128-gcm                   |   yes   | `C` `S` |")]))
T.append(("S6", "shape", [("   > protocol: \"shadowsocks\" | \"vmess\" | \"trojan\"", "   > protocol: shadowsocks, vmess or trojan")]))
T.append(("S7", "shape", [("   1. `client`: options are", "   1. client options are")]))
T.append(("S8", "shape", [("|:----------:|:-------------:|:-----------:|:-----:|:------:|\n", "")]))
# ---------- neutral: layout only ----------
import re
def squeeze(s):      # every table row re-wrapped with minimal padding, alignment row without colons
    out = []
    for ln in s.split("\n"):
        if ln.strip().startswith("|"):
            cells = [c.strip() for c in ln.strip()[1:-1].split("|")]
            cells = ["---" if re.fullmatch(r":?-+:?", c) else c for c in cells]
            ln = "|" + "|".join((" " + c + " ") if c else " " for c in cells) + "|"
        out.append(ln)
    return "\n".join(out)
def widen(s):        # extra padding and indentation of both tables
    return "\n".join(("  " + ln.replace("|", "  |  ")) if ln.strip().startswith("|") else ln for ln in s.split("\n"))
T.append(("N1", "neutral", squeeze))
T.append(("N2", "neutral", widen))
T.append(("N3", "neutral", [("Only support IPv4 at this time.", "Only IPv4 is supported\nat this time.\n\n"), ("- https\n", "- https\n- (more to come)\n"),
                            ('"port": 0,\n        "index": 0,', '"port": 1080,\n        "index": 0,'), ("`C` for client `S` for server", "`C`  for client   `S` for  server")]))
T.append(("N4", "neutral", [("   > mode: (OPTIONAL) listening mode", "   >  mode:   (OPTIONAL)  listening mode"),
                            ('   1. `client`: options are "tcp"(default), "udp", "tcp_and_udp"', '   1. `client`: options are "tcp"(default),\n      "udp",   "tcp_and_udp"')]))
# ---------- text the theorems do not use (reported, not an alarm) ----------
T.append(("U1", "unused", [('priority: "udp" > "\n      quic"', 'priority: "udp" > "quic"')]))
T.append(("U2", "unused", [("> port: which port client will be listening on", "> port: the port the client listens on")]))

bad = 0
try:
    for name, kind, ed in T:
        if callable(ed):
            f = ed
            s2 = f(BASE)
            ok = run(name, kind, [(BASE, s2)])
        else:
            ok = run(name, kind, ed)
        bad += 0 if ok else 1
finally:
    for d in (R, O, C):
        shutil.rmtree(d, ignore_errors=True)
print("%d cases, %d BAD" % (len(T), bad))
sys.exit(1 if bad else 0)
