#!/usr/bin/env python3
"""developer helper (companion of t1diff.sh): evaluate ./check's OWN comparator of a component -- correspondence AND the direct
oracles (@x / @p / @n, never PANIC; hshake: @t / @r) -- on the case file and model output that `t1diff.sh <component> ..` left in
$VERIF_ROOT/.cache/t1diff.  Loads the comparator functions from ./check without running any check.

usage: t1oracle.py <component> [max_shown]"""
import importlib.machinery, importlib.util, os, sys

root = os.environ.get("VERIF_ROOT", os.path.dirname(os.path.dirname(os.path.abspath(__file__))))
loader = importlib.machinery.SourceFileLoader("verif_check", os.path.join(root, "check"))
spec = importlib.util.spec_from_loader("verif_check", loader)
chk = importlib.util.module_from_spec(spec)
loader.exec_module(chk)

comp = sys.argv[1]
shown = int(sys.argv[2]) if len(sys.argv) > 2 else 12
cmp = {"hshake": chk.cmp_hshake, "config": chk.eq_first}.get(comp, chk.cmp_with_oracle)
w = os.path.join(root, ".cache", "t1diff")
cases = open(os.path.join(w, "cases")).read().splitlines()
model = open(os.path.join(w, "model")).read().splitlines()
assert len(cases) == len(model), "case / model line counts differ: %d / %d" % (len(cases), len(model))
bad, metas = {}, {}
for line, m in zip(cases, model):
    args, impl = chk.split_case(line)
    meta = args[-1][:2] if args and args[-1].startswith("@") else "--"
    metas[meta] = metas.get(meta, 0) + 1
    b = cmp(args, impl, m)
    if b:
        bad.setdefault(b[0], []).append((args, impl, m, b[1]))
print("%s: %d cases; metas %s; %d flagged" % (comp, len(cases), " ".join("%s=%d" % kv for kv in sorted(metas.items())), sum(len(v) for v in bad.values())))
for kind, l in bad.items():
    print("  %s: %d" % (kind, len(l)))
    for args, impl, m, detail in l[:shown]:
        print("    case : " + "\t".join(a[:200] for a in args))
        print("    impl : " + " ".join(impl)[:300])
        print("    model: " + m[:300])
        print("    why  : " + detail[:300])
sys.exit(1 if bad else 0)
