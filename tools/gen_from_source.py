#!/usr/bin/env python3
"""Tie A: regenerate coq/Generated/*.v from /repo's current source.

A deliberately small, anchored extractor: every item is located by a regular expression on a
specific statement of a specific file and the script fails loudly (exit 2, message naming the
anchor) when an anchor is not found -- a missing anchor is reported by ./check as a broken tie,
never silently skipped.  Only constants, name tables and inventories are read here; everything
behavioural goes through the correspondence harness (tie B).
"""
import os, re, sys, json

REPO = os.environ.get("VERIF_REPO", "/repo")
OUT = os.path.join(os.path.dirname(os.path.abspath(__file__)), "..", "coq", "Generated")


class AnchorMissing(Exception):
    pass


def src(rel):
    with open(os.path.join(REPO, rel), encoding="utf-8") as f:
        return f.read()


def find(rel, pattern, flags=0, what=None):
    m = re.search(pattern, src(rel), flags)
    if not m:
        raise AnchorMissing("%s: anchor not found: %s" % (rel, what or pattern))
    return m


def rust_int(expr, env=None):
    """Evaluate a Rust integer constant expression made of literals, names, << - * + ( )."""
    env = env or {}
    e = expr.strip()
    e = re.sub(r"_(?=\d)", "", e)
    e = re.sub(r"(\d)(u8|u16|u32|u64|usize|i32|i64)\b", r"\1", e)
    e = e.replace("u64::MAX", str(2**64 - 1)).replace("u16::MAX", "65535").replace("u8::MAX", "255")
    if not re.fullmatch(r"[\w\s<>\-\+\*\(\)x]+", e):
        raise AnchorMissing("cannot evaluate constant expression %r" % expr)
    return int(eval(e, {"__builtins__": {}}, dict(env)))


def n(v):
    return "%d%%N" % v


def coq_string(s):
    return '"' + s.replace('"', '""') + '"'


def bytes_list(b):
    return "[" + "; ".join(str(x) for x in b) + "]%N"


# ------------------------------------------------------------------------------------------
def gen_params():
    L = []
    facts = {}

    def const(name, value, origin):
        facts[name] = value
        L.append("Definition %s : N := %s.  (* %s *)" % (name, n(value), origin))

    # --- packet window (C11) ---
    f = "octo-squirrel/src/manager/packet_window.rs"
    env = {}
    for name in ["BLOCK_BIT_LOG", "BLOCK_BITS", "RING_BLOCKS", "WINDOW_SIZE", "BLOCK_MASK", "BIT_MASK"]:
        m = find(f, r"const\s+%s\s*:\s*u64\s*=\s*([^;]+);" % name, what="const " + name)
        env[name] = rust_int(m.group(1), env)
        const("PW_" + name, env[name], f)
    # call-site limits of validate_packet_id
    for tag, rel in [("SERVER", "octo-squirrel-server/src/server/shadowsocks.rs"),
                     ("CLIENT", "octo-squirrel-client/src/client/shadowsocks.rs")]:
        m = find(rel, r"validate_packet_id\(\s*[\w\.]+\s*,\s*([^\)]+)\)", what="validate_packet_id call site")
        const("PW_LIMIT_" + tag, rust_int(m.group(1)), rel)

    # --- shadowsocks 2022 (C10, C03) ---
    f = "octo-squirrel/src/codec/shadowsocks/aead_2022.rs"
    for name, ty in [("SERVER_STREAM_TIMESTAMP_MAX_DIFF", "u64"), ("MIN_PADDING_LENGTH", "u16"), ("MAX_PADDING_LENGTH", "u16")]:
        m = find(f, r"const\s+%s\s*:\s*%s\s*=\s*([^;]+);" % (name, ty), what="const " + name)
        const("SS2022_" + name, rust_int(m.group(1)), f)
    m = find(f, r"if\s+diff\s*(>=|>)\s*SERVER_STREAM_TIMESTAMP_MAX_DIFF", what="timestamp comparison")
    L.append("Definition SS2022_TS_REJECT_IS_STRICT : bool := %s.  (* `diff %s MAX_DIFF` rejects *)" % ("true" if m.group(1) == ">" else "false", m.group(1)))
    facts["SS2022_TS_REJECT_IS_STRICT"] = (m.group(1) == ">")
    m = find(f, r"pub fn new_encoder.*?ChunkEncoder::new\(([^,]+),", re.S, what="2022 payload limit")
    const("SS2022_PAYLOAD_LIMIT", rust_int(m.group(1)), f)
    f = "octo-squirrel/src/codec/shadowsocks/aead.rs"
    m = find(f, r"pub fn new_encoder.*?ChunkEncoder::new\(([^,]+),", re.S, what="legacy payload limit")
    const("SS_LEGACY_PAYLOAD_LIMIT", rust_int(m.group(1)), f)
    m = find(f, r'hk\.expand\(b"([^"]+)"', what="hkdf info")
    L.append("Definition SS_SUBKEY_INFO : list N := %s.  (* %s *)" % (bytes_list(m.group(1).encode()), f))
    facts["SS_SUBKEY_INFO"] = m.group(1)

    # salt cache (C10)
    f = "octo-squirrel/src/codec/shadowsocks/tcp.rs"
    m = find(f, r"nonce_cache\s*=\s*Mutex::new\(LruCache::with_expiry_duration_and_capacity\(Duration::from_secs\((\d+)\)\s*,\s*(\d+)\)\)", what="salt cache ttl/capacity")
    const("SALT_CACHE_TTL", int(m.group(1)), f)
    const("SALT_CACHE_CAPACITY", int(m.group(2)), f)

    # KDF labels (C03)
    f = "octo-squirrel/src/codec/shadowsocks/aead_2022.rs"
    m = find(f, r'blake3::derive_key\("([^"]+)"', what="session subkey label")
    L.append("Definition SS2022_SESSION_LABEL : list N := %s." % bytes_list(m.group(1).encode()))
    facts["SS2022_SESSION_LABEL"] = m.group(1)
    f = "octo-squirrel/src/codec/shadowsocks/aead_2022/tcp.rs"
    m = find(f, r'blake3::derive_key\("([^"]+)"', what="identity subkey label")
    L.append("Definition SS2022_IDENTITY_LABEL : list N := %s." % bytes_list(m.group(1).encode()))
    facts["SS2022_IDENTITY_LABEL"] = m.group(1)

    # vmess (C10, C03)
    f = "octo-squirrel/src/protocol/vmess/aead/auth_id.rs"
    m = find(f, r"now\.abs_diff\(vmess::now\(\)\?\)\s*(<=|<)\s*(\d+)", what="vmess auth id time window")
    const("VMESS_AUTHID_WINDOW", int(m.group(2)), f)
    L.append("Definition VMESS_AUTHID_ACCEPT_IS_LE : bool := %s." % ("true" if m.group(1) == "<=" else "false"))
    facts["VMESS_AUTHID_ACCEPT_IS_LE"] = (m.group(1) == "<=")
    f = "octo-squirrel/src/codec/vmess/aead.rs"
    m = find(f, r"payload_limit:\s*(\d+)", what="vmess payload limit")
    const("VMESS_PAYLOAD_LIMIT", int(m.group(1)), f)
    m = find(f, r"\(self\.next\(\)\s*%\s*(\d+)\)\s*as usize", what="vmess padding modulus")
    const("VMESS_PADDING_MOD", int(m.group(1)), f)

    # mode bytes of shadowsocks 2022 stream types
    f = "octo-squirrel/src/protocol/shadowsocks.rs"
    s = src(f)
    m1 = re.search(r"pub fn to_u8.*?Self::Client\s*=>\s*(\d+).*?Self::Server\s*=>\s*(\d+)", s, re.S)
    m2 = re.search(r"pub fn expect_u8.*?Self::Client\s*=>\s*(\d+).*?Self::Server\s*=>\s*(\d+)", s, re.S)
    if not m1 or not m2:
        raise AnchorMissing(f + ": Mode::to_u8/expect_u8")
    const("SS_MODE_CLIENT_TO_U8", int(m1.group(1)), f)
    const("SS_MODE_SERVER_TO_U8", int(m1.group(2)), f)
    const("SS_MODE_CLIENT_EXPECT_U8", int(m2.group(1)), f)
    const("SS_MODE_SERVER_EXPECT_U8", int(m2.group(2)), f)

    # UDP table parameters (C02/C08)
    f = "octo-squirrel-server/src/server/shadowsocks.rs"
    m = find(f, r"let ttl = Duration::from_secs\((\d+)\);.*?let mut net_map[^=]*=\s*LruCache::with_expiry_duration_and_capacity\(ttl,\s*(\d+)\)", re.S, what="server assoc table")
    const("SERVER_ASSOC_TTL", int(m.group(1)), f)
    const("SERVER_ASSOC_CAPACITY", int(m.group(2)), f)
    f = "octo-squirrel-client/src/client/template.rs"
    m = find(f, r"let ttl = Duration::from_secs\((\d+)\);\s*let mut client_server_cache = LruCache::with_expiry_duration_and_capacity\(ttl,\s*(\d+)\)", re.S, what="client binding table")
    const("CLIENT_BINDING_TTL", int(m.group(1)), f)
    const("CLIENT_BINDING_CAPACITY", int(m.group(2)), f)

    header = ("(* GENERATED by tools/gen_from_source.py from /repo's working tree -- do not edit. *)\n"
              "From Coq Require Import NArith List.\nImport ListNotations.\nOpen Scope N_scope.\n\n")
    return header + "\n".join(L) + "\n", facts


# ------------------------------------------------------------------------------------------
def enum_serde_names(rel, enum_name):
    s = src(rel)
    m = re.search(r"pub enum %s\s*\{(.*?)\n\}" % enum_name, s, re.S)
    if not m:
        raise AnchorMissing("%s: enum %s" % (rel, enum_name))
    body = m.group(1)
    # container attribute
    pre = s[:m.start()]
    attrs = pre[pre.rfind("\n\n"):] if "\n\n" in pre else pre
    lower = "rename_all = \"lowercase\"" in attrs[-300:]
    out = []
    pend = []
    for line in body.splitlines():
        line = line.strip()
        if not line:
            continue
        ma = re.match(r"#\[serde\((.*)\)\]", line)
        if ma:
            for kv in re.finditer(r'(rename|alias)\s*=\s*"([^"]+)"', ma.group(1)):
                pend.append((kv.group(1), kv.group(2)))
            continue
        if line.startswith("#["):
            continue
        mv = re.match(r"(\w+)", line)
        if mv:
            var = mv.group(1)
            names = [v for k, v in pend]
            if not any(k == "rename" for k, v in pend):
                names = ([var.lower()] if lower else [var]) + names
            out.append((var, names))
            pend = []
    return out


def gen_tables():
    L = []
    facts = {}
    ck = enum_serde_names("octo-squirrel/src/codec/aead.rs", "CipherKind")
    pr = enum_serde_names("octo-squirrel/src/protocol.rs", "Protocol")
    md = enum_serde_names("octo-squirrel/src/config.rs", "Mode")
    facts["cipher_names"] = ck
    facts["protocol_names"] = pr
    facts["mode_names"] = md

    def table(name, rows):
        L.append("Definition %s : list (string * string) :=\n  [ %s ]." % (
            name, ";\n    ".join("(%s, %s)" % (coq_string(nm), coq_string(var)) for var, names in rows for nm in names)))
    table("cipher_names", [(v, ns) for v, ns in ck if v != "Unknown"])
    L.append("Definition cipher_unknown_is_nameable : bool := %s." % ("true" if any(v == "Unknown" and ns and ns != ["Unknown"] for v, ns in ck) else "false"))
    table("protocol_names", pr)
    table("mode_names", md)

    # enable_* arms
    s = src("octo-squirrel/src/config.rs")
    for fn in ["enable_tcp", "enable_udp", "enable_quic"]:
        m = re.search(r"pub fn %s\(&self\) -> bool \{\s*matches!\(self,\s*([^\)]+)\)" % fn, s)
        if not m:
            raise AnchorMissing("config.rs: " + fn)
        arms = [a.strip().replace("Self::", "") for a in m.group(1).split("|")]
        facts[fn] = arms
        L.append("Definition mode_%s : list string := [%s]." % (fn, "; ".join(coq_string(a) for a in arms)))

    # cipher kind properties: is_aead_2022, support_eih
    s = src("octo-squirrel/src/codec/aead.rs")
    for fn in ["is_aead_2022", "support_eih"]:
        m = re.search(r"pub const fn %s\(&self\) -> bool \{\s*matches!\(\s*self,\s*(.*?)\)\s*\}" % fn, s, re.S)
        if not m:
            raise AnchorMissing("aead.rs: " + fn)
        arms = [a.strip().replace("Self::", "") for a in m.group(1).replace("\n", " ").split("|")]
        arms = [a.strip() for a in arms if a.strip()]
        facts[fn] = arms
        L.append("Definition kind_%s : list string := [%s]." % (fn, "; ".join(coq_string(a) for a in arms)))

    # key-size dispatch in client.rs / server shadowsocks.rs: which kinds go to <16> and which to <32>
    def dispatch(rel, anchor):
        s = src(rel)
        i = s.find(anchor)
        if i < 0:
            raise AnchorMissing(rel + ": " + anchor)
        seg = s[i:i + 4000]
        m16 = re.search(r"((?:\s*\|?\s*CipherKind::\w+)+)\s*=>\s*\{[^{}]*?<16>", seg, re.S)
        m32 = re.search(r"((?:\s*\|?\s*CipherKind::\w+)+)\s*=>\s*\{[^{}]*?<32>", seg, re.S)
        if not m16 or not m32:
            raise AnchorMissing(rel + ": key-size dispatch arms")
        g = lambda m: re.findall(r"CipherKind::(\w+)", m.group(1))
        return g(m16), g(m32)
    c16, c32 = dispatch("octo-squirrel-client/src/client.rs", "async fn transfer_tcp")
    s16, s32 = dispatch("octo-squirrel-server/src/server/shadowsocks.rs", "pub async fn startup")
    for nm, v in [("client_n16", c16), ("client_n32", c32), ("server_n16", s16), ("server_n32", s32)]:
        facts[nm] = v
        L.append("Definition %s : list string := [%s]." % (nm, "; ".join(coq_string(a) for a in v)))

    header = ("(* GENERATED by tools/gen_from_source.py from /repo's working tree -- do not edit. *)\n"
              "From Coq Require Import String List.\nImport ListNotations.\nOpen Scope string_scope.\n\n")
    return header + "\n".join(L) + "\n", facts


# ------------------------------------------------------------------------------------------
# C16: configuration -> behaviour tables (transport matches, startup paths, key-derivation calls)
def _fn_body(rel, header_re, what):
    """text of the item that starts at `header_re` up to the closing brace at the header's own indentation"""
    s = src(rel)
    m = re.search(header_re, s)
    if not m:
        raise AnchorMissing("%s: %s" % (rel, what))
    line_start = s.rfind("\n", 0, m.start()) + 1
    indent = re.match(r"[ \t]*", s[line_start:]).group(0)
    e = re.search(r"\n%s\}" % indent, s[m.end():])
    if not e:
        raise AnchorMissing("%s: end of %s" % (rel, what))
    return s[m.start():m.end() + e.end()]


def _pat(p):
    p = p.strip()
    if p == "_" or re.fullmatch(r"[a-z_]\w*", p):
        return "_"          # wildcard or a binding: matches both
    if p == "None":
        return "None"
    if re.fullmatch(r"Some\([\w_]+\)", p):
        return "Some"
    raise AnchorMissing("unsupported Option pattern %r in a transport match" % p)


def _strlist(xs):
    return "[" + "; ".join(coq_string(x) for x in xs) + "]"


def gen_config():
    L = []
    facts = {}

    def emit(name, ty, value, fact, origin):
        facts[name] = fact
        L.append("Definition %s : %s := %s.  (* %s *)" % (name, ty, value, origin))

    # --- every serde name of CipherKind, INCLUDING the names of the default variant ---
    f = "octo-squirrel/src/codec/aead.rs"
    ck = enum_serde_names(f, "CipherKind")
    enum_body = _fn_body(f, r"pub enum CipherKind\s*\{", "enum CipherKind")
    m = re.search(r"#\[default\]\s*(?:#\[[^\]]*\]\s*)*(\w+)\s*,", enum_body)
    if not m:
        raise AnchorMissing(f + ": #[default] variant of CipherKind")
    emit("cipher_default_variant", "string", coq_string(m.group(1)), m.group(1), f + " #[default]")
    # variants carrying #[serde(skip)] / #[serde(skip_deserializing)] have NO name a configuration can use
    skipped = re.findall(r"#\[serde\((?:[^\]]*,\s*)?(?:skip|skip_deserializing)(?:\s*,[^\]]*)?\)\]\s*(?:#\[[^\]]*\]\s*)*(\w+)\s*,", enum_body)
    emit("cipher_not_deserializable", "list string", _strlist(skipped), skipped, f + " #[serde(skip_deserializing)] variants")
    rows = [(nm, var) for var, names in ck for nm in names if var not in skipped]
    emit("cipher_names_all", "list (string * string)",
         "[ " + ";\n    ".join("(%s, %s)" % (coq_string(a), coq_string(b)) for a, b in rows) + " ]", rows, f + " serde names, default variant included")
    find("octo-squirrel/src/config.rs", r"#\[serde\(default\)\]\s*pub cipher: CipherKind", what="ServerConfig.cipher is #[serde(default)]")
    find("octo-squirrel/src/config.rs", r"#\[serde\(default\)\]\s*pub mode: Mode", what="ServerConfig.mode is #[serde(default)]")
    m = find("octo-squirrel/src/config.rs", r"impl Default for Mode \{\s*fn default\(\) -> Self \{\s*Self::(\w+)", what="Mode::default")
    emit("mode_default_variant", "string", coq_string(m.group(1)), m.group(1), "config.rs Mode::default")

    # --- kind -> AEAD algorithm (CipherMethod::new) and the tag-size dispatch (kind_match_aead!) ---
    body = _fn_body(f, r"pub fn new\(kind: CipherKind, key: &\[u8\]\) -> Self \{", "CipherMethod::new")
    arms = re.findall(r"((?:\|?\s*CipherKind::\w+\s*)+)=>\s*\{[^{}]*?Self::(\w+)\(", body, re.S)
    if not arms:
        raise AnchorMissing(f + ": CipherMethod::new arms")
    rows = [(k, algo) for ks, algo in arms for k in re.findall(r"CipherKind::(\w+)", ks)]
    mu = re.search(r"CipherKind::(\w+)\s*=>\s*panic!", body)
    emit("kind_algo", "list (string * string)", "[" + "; ".join("(%s, %s)" % (coq_string(a), coq_string(b)) for a, b in rows) + "]", rows, f + " CipherMethod::new")
    emit("kind_algo_panics", "list string", _strlist([mu.group(1)] if mu else []), [mu.group(1)] if mu else [], f + " CipherMethod::new panic arm")
    body = _fn_body(f, r"macro_rules! kind_match_aead \{", "kind_match_aead!")
    arms = re.findall(r"((?:\|?\s*Self::\w+\s*)+)=>\s*<(\w+) as \$trait>", body)
    if not arms:
        raise AnchorMissing(f + ": kind_match_aead! arms")
    rows = [(k, algo) for ks, algo in arms for k in re.findall(r"Self::(\w+)", ks)]
    emit("kind_tag_algo", "list (string * string)", "[" + "; ".join("(%s, %s)" % (coq_string(a), coq_string(b)) for a, b in rows) + "]", rows, f + " kind_match_aead!")
    mu = re.search(r"Self::(\w+)\s*=>\s*panic!", body)
    emit("kind_tag_panics", "list string", _strlist([mu.group(1)] if mu else []), [mu.group(1)] if mu else [], f + " kind_match_aead! panic arm")

    # --- client: match (protocol, ssl, ws, quic) of transfer_udp ---
    f = "octo-squirrel-client/src/client.rs"
    body = _fn_body(f, r"async fn transfer_udp\(", "transfer_udp")
    if not re.search(r"match \(current\.protocol, &current\.ssl, &current\.ws, &current\.quic\) \{", body):
        raise AnchorMissing(f + ": match (current.protocol, &current.ssl, &current.ws, &current.quic)")
    heads = list(re.finditer(r"\n        \((\w+), ([^,()]+|Some\(\w+\)), ([^,()]+|Some\(\w+\)), ([^,()]+|Some\(\w+\))\) => ", body))
    if len(heads) < 3:
        raise AnchorMissing(f + ": arms of the transport match in transfer_udp")
    rows = []
    for i, h in enumerate(heads):
        seg = body[h.end():heads[i + 1].start() if i + 1 < len(heads) else len(body)]
        outs = sorted(set(re.findall(r"\b(new_\w+_outbound)\b", seg)))
        if len(outs) != 1:
            raise AnchorMissing(f + ": transfer_udp arm %s must name exactly one new_*_outbound, found %r" % (h.group(0).strip(), outs))
        rows.append((h.group(1), _pat(h.group(2)), _pat(h.group(3)), _pat(h.group(4)), outs[0]))
    emit("client_udp_table", "list (string * string * string * string * string)",
         "[ " + ";\n    ".join("(%s)" % ", ".join(coq_string(x) for x in r) for r in rows) + " ]", rows, f + " transfer_udp")
    # the same function: key-size dispatch on UDP and what an absent cipher does
    m = re.search(r"CipherKind::Unknown => \{\s*(\w+)!\(\"([^\"]+)\"\);\s*Ok\(\(\)\)", body)
    if not m:
        raise AnchorMissing(f + ": transfer_udp CipherKind::Unknown arm")
    emit("client_udp_unknown", "string * string", "(%s, %s)" % (coq_string(m.group(1)), coq_string(m.group(2))), [m.group(1), m.group(2)], f)
    body_t = _fn_body(f, r"async fn transfer_tcp\(", "transfer_tcp")
    m = re.search(r"CipherKind::Unknown => (\w+)!\(\"([^\"]+)\"\)", body_t)
    if not m:
        raise AnchorMissing(f + ": transfer_tcp CipherKind::Unknown arm")
    emit("client_tcp_unknown", "string * string", "(%s, %s)" % (coq_string(m.group(1)), coq_string(m.group(2))), [m.group(1), m.group(2)], f)
    def udp_dispatch(seg):
        m16 = re.search(r"((?:\s*\|?\s*CipherKind::\w+)+)\s*=>\s*\{[^{}]*?<16>", seg, re.S)
        m32 = re.search(r"((?:\s*\|?\s*CipherKind::\w+)+)\s*=>\s*\{[^{}]*?<32>", seg, re.S)
        if not m16 or not m32:
            raise AnchorMissing(f + ": transfer_udp key-size dispatch arms")
        g = lambda m: re.findall(r"CipherKind::(\w+)", m.group(1))
        return g(m16), g(m32)
    u16, u32 = udp_dispatch(body)
    emit("client_udp_n16", "list string", _strlist(u16), u16, f + " transfer_udp <16>")
    emit("client_udp_n32", "list string", _strlist(u32), u32, f + " transfer_udp <32>")
    # protocols of transfer_tcp that go through the cipher match (the others ignore `cipher`... see vmess below)
    protos = re.findall(r"\n        (\w+) => ", body_t)
    emit("client_tcp_protocol_arms", "list string", _strlist(protos), protos, f + " transfer_tcp")

    # --- client main: which predicate guards which bind ---
    body = _fn_body(f, r"pub async fn main\(\)", "client main")
    guards = re.findall(r"if config\.mode\.(enable_\w+)\(\) \{\s*let \w+ = (UdpSocket|TcpListener)::bind\(listen_addr\)", body)
    if sorted(g[1] for g in guards) != ["TcpListener", "UdpSocket"]:
        raise AnchorMissing(f + ": main must bind one UdpSocket and one TcpListener, each under `if config.mode.enable_*()`; found %r" % (guards,))
    emit("client_main_guards", "list (string * string)", "[" + "; ".join("(%s, %s)" % (coq_string(b), coq_string(a)) for a, b in guards) + "]",
         [(b, a) for a, b in guards], f + " main")
    first_bind = re.search(r"(UdpSocket|TcpListener)::bind\(", body).start()
    refuses = re.findall(r"if config\.mode\.(enable_\w+)\(\) \{\s*bail!\(", body[:first_bind])
    emit("client_main_refuses", "list string", _strlist(refuses), refuses, f + " main: `if config.mode.<this>() { bail!(..) }` before any bind")
    keeps = bool(re.search(r"if let Some\(udp_task\) = udp_task \{\s*udp_task\.await", body))
    emit("client_main_awaits_udp_task", "bool", "true" if keeps else "false", keeps, f + " main")

    # --- client template: match (ssl, ws, quic) of try_transfer_tcp ---
    f = "octo-squirrel-client/src/client/template.rs"
    body = _fn_body(f, r"pub async fn try_transfer_tcp<", "try_transfer_tcp")
    if not re.search(r"match \(&config\.ssl, &config\.ws, &config\.quic\) \{", body):
        raise AnchorMissing(f + ": match (&config.ssl, &config.ws, &config.quic)")
    heads = list(re.finditer(r"\n        \(([^,()]+|Some\(\w+\)), ([^,()]+|Some\(\w+\)), ([^,()]+|Some\(\w+\))\) => \{", body))
    if len(heads) < 2:
        raise AnchorMissing(f + ": arms of the transport match in try_transfer_tcp")
    rows = []
    for i, h in enumerate(heads):
        seg = body[h.end():heads[i + 1].start() if i + 1 < len(heads) else len(body)]
        outs = sorted(set(re.findall(r"\b(new_\w+_outbound)\b", seg)))
        if len(outs) != 1:
            raise AnchorMissing(f + ": try_transfer_tcp arm must name exactly one new_*_outbound, found %r" % (outs,))
        rows.append((_pat(h.group(1)), _pat(h.group(2)), _pat(h.group(3)), outs[0]))
    emit("client_tcp_table", "list (string * string * string * string)",
         "[ " + ";\n    ".join("(%s)" % ", ".join(coq_string(x) for x in r) for r in rows) + " ]", rows, f + " try_transfer_tcp")

    # --- server: startup per protocol, startup_tcp (ssl, ws) arms, startup_quic guard ---
    f = "octo-squirrel-server/src/server.rs"
    body = _fn_body(f, r"async fn startup\(config: ServerConfig<SslConfig>\)", "server startup")
    heads = list(re.finditer(r"\n        Protocol::(\w+) => ", body))
    if not heads:
        raise AnchorMissing(f + ": startup protocol arms")
    rows = []
    for i, h in enumerate(heads):
        seg = body[h.end():heads[i + 1].start() if i + 1 < len(heads) else len(body)]
        calls = re.findall(r"\b((?:\w+::)?startup(?:_\w+)?)\(", seg)
        if not calls:
            raise AnchorMissing(f + ": startup arm %s calls no startup function" % h.group(1))
        rows.append((h.group(1), calls))
    emit("server_startup", "list (string * list string)", "[" + "; ".join("(%s, %s)" % (coq_string(p), _strlist(c)) for p, c in rows) + "]", rows, f + " startup")
    body = _fn_body(f, r"async fn startup_tcp<", "server startup_tcp")
    if not re.search(r"let listener = TcpListener::bind\(", body.split("match (&config.ssl, &config.ws)")[0]):
        raise AnchorMissing(f + ": startup_tcp binds unconditionally before the transport match")
    heads = list(re.finditer(r"\n        \((None|Some\(\w+\)), (\w+)\) => ", body))
    if len(heads) != 2:
        raise AnchorMissing(f + ": startup_tcp must have exactly the arms (None, ws) and (Some(ssl), ws)")
    rows = []
    for i, h in enumerate(heads):
        seg = body[h.end():heads[i + 1].start() if i + 1 < len(heads) else len(body)]
        tls = "TlsAcceptor" in seg
        ws = bool(re.search(r"%s\.is_some\(\)" % re.escape(h.group(2)), seg)) and "accept_websocket_then_replay" in seg and "template::tcp::relay" in seg
        rows.append((_pat(h.group(1)), tls, ws))
    emit("server_tcp_table", "list (string * bool * bool)",
         "[" + "; ".join("(%s, %s, %s)" % (coq_string(a), "true" if b else "false", "true" if c else "false") for a, b, c in rows) + "]", rows,
         f + " startup_tcp: ssl pattern, TLS acceptor used, websocket exactly when the ws section is present")
    body = _fn_body(f, r"async fn startup_quic<", "server startup_quic")
    m = re.search(r"\{\s*if let Some\(\w+\) = &config\.quic \{.*\n    \}\n    Ok\(\(\)\)\n\}\Z", body, re.S)
    emit("server_quic_needs_section", "bool", "true" if m else "false", bool(m), f + " startup_quic: `if let Some(..) = &config.quic {..} Ok(())`")
    if not m:
        raise AnchorMissing(f + ": startup_quic is no longer `if let Some(..) = &config.quic { .. } Ok(())`")

    # --- shadowsocks server: mode tests ---
    f = "octo-squirrel-server/src/server/shadowsocks.rs"
    body = _fn_body(f, r"pub async fn startup\(", "shadowsocks startup")
    joined = re.findall(r"tokio::join!\(\s*(startup_\w+)::<\d+>\([^)]*\),\s*(startup_\w+)::<\d+>\([^)]*\)\)", body)
    if len(joined) != 2 or joined[0] != joined[1]:
        raise AnchorMissing(f + ": both key-size arms must join the same two startup functions; found %r" % (joined,))
    emit("ss_server_joined", "list string", _strlist(list(joined[0])), list(joined[0]), f + " startup")
    pre = body.split("match config.cipher")[0]
    needs = re.findall(r"if config\.mode\.(enable_\w+)\(\) && config\.quic\.is_none\(\) \{\s*bail!\(", pre)
    emit("ss_server_requires_quic_section", "list string", _strlist(needs), needs,
         f + " startup: `if config.mode.<this>() && config.quic.is_none() { bail!(..) }` before the cipher match and the join")
    m = re.search(r"CipherKind::Unknown => (\w+)!\(\"([^\"]+)\"\)", body)
    if not m:
        raise AnchorMissing(f + ": startup CipherKind::Unknown arm")
    emit("ss_server_unknown", "string * string", "(%s, %s)" % (coq_string(m.group(1)), coq_string(m.group(2))), [m.group(1), m.group(2)], f)
    body = _fn_body(f, r"async fn startup_tcp<", "shadowsocks startup_tcp")
    m = re.search(r"\{\s*if ((?:!config\.mode\.enable_\w+\(\)(?: && )?)+) \{\s*return Ok\(\(\)\);\s*\}(.*)\Z", body, re.S)
    if not m or "super::startup_tcp(" not in m.group(2):
        raise AnchorMissing(f + ": startup_tcp early return on the mode")
    g = re.findall(r"!config\.mode\.(enable_\w+)\(\)", m.group(1))
    emit("ss_server_tcp_guard", "list string", _strlist(g), g, f + " startup_tcp returns early unless one of these holds")
    body = _fn_body(f, r"async fn startup_udp<", "shadowsocks startup_udp")
    m = re.search(r"\{\s*if ((?:!config\.mode\.enable_\w+\(\)(?: && )?)+) \{\s*return Ok\(\(\)\);\s*\}\s*if config\.mode\.(enable_\w+)\(\) \{(.*)\n    \} else \{(.*)\n    \}\n\}\Z", body, re.S)
    if not m:
        raise AnchorMissing(f + ": startup_udp shape `if !a && !b {return} if udp {..} else {..}`")
    g = re.findall(r"!config\.mode\.(enable_\w+)\(\)", m.group(1))
    emit("ss_server_udp_guard", "list string", _strlist(g), g, f + " startup_udp returns early unless one of these holds")
    if "UdpSocket::bind(" not in m.group(3) or "super::startup_quic(" not in m.group(4):
        raise AnchorMissing(f + ": startup_udp branches (UdpSocket::bind | super::startup_quic)")
    quic_branch = m.group(4)
    needs = bool(re.search(r"if config\.quic\.is_none\(\) \{\s*bail!\(", quic_branch.split("super::startup_quic(")[0]))
    emit("ss_server_quic_branch_requires_section", "bool", "true" if needs else "false", needs,
         f + " startup_udp else-branch: `if config.quic.is_none() { bail!(..) }` before super::startup_quic")
    emit("ss_server_udp_branch", "string * string * string", "(%s, %s, %s)" % (coq_string(m.group(2)), coq_string("UdpSocket"), coq_string("startup_quic")),
         [m.group(2), "UdpSocket", "startup_quic"], f + " startup_udp: `if mode.<1>() { <2>::bind } else { <3> }`")

    # --- which function turns the configured password into the key, on each path ---
    def key_path(rel, header_re, what):
        body = _fn_body(rel, header_re, what)
        m = re.search(r"if [\w\.]+\.is_aead_2022\(\) \{\s*(?:\w+::)*(\w+)\(&\w+\.password\)[^{}]*\} else \{(.*?)\n\s*\};", body, re.S)
        if not m:
            raise AnchorMissing("%s: %s: `if kind.is_aead_2022() { f(&x.password) } else { .. }`" % (rel, what))
        m2 = re.search(r"(?:\w+::)*(\w+)\(\w+\.password\.as_bytes\(\)\)", m.group(2))
        if not m2:
            raise AnchorMissing("%s: %s: legacy branch g(x.password.as_bytes())" % (rel, what))
        return m.group(1), m2.group(1)
    rows = []
    for side, net, rel, hre in [
        ("client", "tcp", "octo-squirrel-client/src/client/shadowsocks.rs", r"fn try_from\(value: &ServerConfig<SslConfig>\)"),
        ("client", "udp", "octo-squirrel-client/src/client/shadowsocks.rs", r"pub fn new_static\("),
        ("server", "tcp", "octo-squirrel-server/src/server/shadowsocks.rs", r"pub fn init\(config: &ServerConfig<SslConfig>"),
        ("server", "udp", "octo-squirrel-server/src/server/shadowsocks.rs", r"async fn startup_udp<"),
    ]:
        a, b = key_path(rel, hre, side + " " + net + " key derivation")
        rows.append((side, net, a, b))
    emit("key_paths", "list (string * string * string * string)",
         "[ " + ";\n    ".join("(%s)" % ", ".join(coq_string(x) for x in r) for r in rows) + " ]", rows, "side, net, function for 2022 kinds, function for legacy kinds")
    # config_password_to_keys: the length test
    f = "octo-squirrel/src/protocol/shadowsocks.rs"
    body = _fn_body(f, r"pub fn config_password_to_keys<const N: usize>", "config_password_to_keys")
    m = re.search(r"for s in password\.split\('(.)'\) \{\s*if Base64::decode_vec\(s\)\?\.len\(\) (!=|<|>) N \{\s*return Err\(", body)
    if not m or "password_to_keys(password)" not in body:
        raise AnchorMissing(f + ": config_password_to_keys: `for s in password.split(':') { if Base64::decode_vec(s)?.len() != N { return Err` ")
    emit("config_keys_separator", "string", coq_string(m.group(1)), m.group(1), f)
    emit("config_keys_length_test", "string", coq_string(m.group(2)), m.group(2), f + " a key is refused when `len <this> N`")

    # --- vmess client: how the configured cipher selects the body security ---
    f = "octo-squirrel-client/src/client/vmess.rs"
    body = _fn_body(f, r"pub\(super\) fn security_type\(kind: CipherKind\)", "vmess security_type")
    arms = re.findall(r"CipherKind::(\w+) => Ok\(SecurityType::(\w+)\)", body)
    dflt = re.search(r"\n\s*_ => (\w+)!\(", body)
    if not arms or not dflt:
        raise AnchorMissing(f + ": security_type arms `CipherKind::X => Ok(SecurityType::Y)` and a `_ =>` arm")
    emit("vmess_security_arms", "list (string * string)", "[" + "; ".join("(%s, %s)" % (coq_string(a), coq_string(b)) for a, b in arms) + "]", arms, f + " security_type")
    emit("vmess_security_otherwise", "string", coq_string(dflt.group(1)), dflt.group(1), f + " security_type `_ =>` arm")
    callers = []
    if re.search(r"pub fn new_codec\(addr: &Address, \(kind, password\): \(CipherKind, String\)\)[^{]*\{\s*let security = super::security_type\(kind\)\?;", src(f)):
        callers.append("tcp")
    if re.search(r"pub fn new_codec\(addr: &Address, config: &ServerConfig<SslConfig>\)[^{]*\{\s*let security = super::security_type\(config\.cipher\)\?;", src(f)):
        callers.append("udp")
    if re.search(r"VMess => \{?\s*template::transfer_tcp\(listener, current, \|c\| vmess::security_type\(c\.cipher\)\.map\(", src("octo-squirrel-client/src/client.rs")):
        callers.append("context")
    if "tcp" not in callers or "udp" not in callers:
        raise AnchorMissing(f + ": tcp::new_codec / udp::new_codec no longer take their security from security_type(..)?")
    emit("vmess_security_callers", "list string", _strlist(callers), callers, "who calls security_type: per-flow codecs (tcp, udp) and the client context of transfer_tcp")

    header = ("(* GENERATED by tools/gen_from_source.py from /repo's working tree -- do not edit. *)\n"
              "From Coq Require Import String List.\nImport ListNotations.\nOpen Scope string_scope.\n\n")
    return header + "\n".join(L) + "\n", facts


# ------------------------------------------------------------------------------------------
SHARED_PATTERNS = [
    ("static", r"^\s*(?:pub\s+)?static\s+(?:mut\s+)?(\w+)"),
    ("mutex_new", r"Mutex::new\("),
    ("try_lock", r"\.try_lock\(\)"),
    ("lock", r"\.lock\(\)"),
    ("unsafe", r"\bunsafe\b"),
    ("cast_mut", r"cast_mut\(\)"),
    ("from_utf8_unchecked", r"from_utf8_unchecked"),
    ("from_raw_parts", r"from_raw_parts"),
    ("advance_mut", r"advance_mut"),
    ("get_unchecked", r"get_unchecked"),
    ("box_leak", r"Box::leak"),
]


def gen_shared():
    rows = []
    for crate in ["octo-squirrel", "octo-squirrel-client", "octo-squirrel-server"]:
        base = os.path.join(REPO, crate, "src")
        for root, _, files in os.walk(base):
            for fn in sorted(files):
                if not fn.endswith(".rs"):
                    continue
                rel = os.path.relpath(os.path.join(root, fn), REPO)
                in_test = False
                for i, line in enumerate(open(os.path.join(root, fn), encoding="utf-8"), 1):
                    if re.match(r"\s*#\[cfg\(test\)\]", line):
                        in_test = True
                    if in_test:
                        continue
                    code = line.split("//")[0]
                    for kind, pat in SHARED_PATTERNS:
                        if re.search(pat, code):
                            rows.append((kind, rel, code.strip()))
    rows.sort()
    # line numbers are deliberately NOT part of the inventory (harmless edits move them);
    # the inventory is the multiset of (kind, file, normalised statement)
    L = ["Definition shared_inventory : list (string * string * string) :=\n  [ %s ]." % ";\n    ".join(
        "(%s, %s, %s)" % (coq_string(k), coq_string(f), coq_string(re.sub(r"\s+", " ", c))) for k, f, c in rows)]
    header = ("(* GENERATED by tools/gen_from_source.py from /repo's working tree -- do not edit. *)\n"
              "From Coq Require Import String List.\nImport ListNotations.\nOpen Scope string_scope.\n\n")
    return header + "\n".join(L) + "\n", {"shared_inventory": rows}


def write_if_changed(path, content):
    try:
        if open(path, encoding="utf-8").read() == content:
            return False
    except FileNotFoundError:
        pass
    os.makedirs(os.path.dirname(path), exist_ok=True)
    with open(path, "w", encoding="utf-8") as f:
        f.write(content)
    return True


def main():
    facts = {}
    errors = []
    for name, fn in [("Params", gen_params), ("Tables", gen_tables), ("Shared", gen_shared), ("ConfigTables", gen_config)]:
        try:
            text, fc = fn()
            facts.update(fc)
            write_if_changed(os.path.join(OUT, name + ".v"), text)
        except AnchorMissing as e:
            errors.append("[%s] %s" % (name, e))
    if "--json" in sys.argv:
        json.dump({"facts": facts, "errors": errors}, sys.stdout, default=str)
        print()
    for e in errors:
        print("ANCHOR-MISSING: " + e, file=sys.stderr)
    sys.exit(2 if errors else 0)


if __name__ == "__main__":
    main()
