#!/usr/bin/env python3
"""Tie A: regenerate coq/Generated/*.v from /repo's current source.

A deliberately small, anchored extractor: every item is located by a regular expression on a
specific statement of a specific file and the script fails loudly (exit 2, message naming the
anchor) when an anchor is not found -- a missing anchor is reported by ./check as a broken tie,
never silently skipped.  Only constants, name tables and inventories are read here; everything
behavioural goes through the correspondence harness (tie B).
"""
import os, re, sys, json

REPO = os.environ.get("VERIF_REPO", "/repo")
OUT = os.path.join(os.path.dirname(os.path.abspath(__file__)), "..", "coq", "Generated")


class AnchorMissing(Exception):
    pass


def src(rel):
    with open(os.path.join(REPO, rel), encoding="utf-8") as f:
        return f.read()


def find(rel, pattern, flags=0, what=None):
    m = re.search(pattern, src(rel), flags)
    if not m:
        raise AnchorMissing("%s: anchor not found: %s" % (rel, what or pattern))
    return m


def rust_int(expr, env=None):
    """Evaluate a Rust integer constant expression made of literals, names, << - * + ( )."""
    env = env or {}
    e = expr.strip()
    e = re.sub(r"_(?=\d)", "", e)
    e = re.sub(r"(\d)(u8|u16|u32|u64|usize|i32|i64)\b", r"\1", e)
    e = e.replace("u64::MAX", str(2**64 - 1)).replace("u16::MAX", "65535").replace("u8::MAX", "255")
    if not re.fullmatch(r"[\w\s<>\-\+\*\(\)x]+", e):
        raise AnchorMissing("cannot evaluate constant expression %r" % expr)
    return int(eval(e, {"__builtins__": {}}, dict(env)))


def n(v):
    return "%d%%N" % v


def coq_string(s):
    return '"' + s.replace('"', '""') + '"'


def bytes_list(b):
    return "[" + "; ".join(str(x) for x in b) + "]%N"


# ------------------------------------------------------------------------------------------
def gen_params():
    L = []
    facts = {}

    def const(name, value, origin):
        facts[name] = value
        L.append("Definition %s : N := %s.  (* %s *)" % (name, n(value), origin))

    # --- packet window (C11) ---
    f = "octo-squirrel/src/manager/packet_window.rs"
    env = {}
    for name in ["BLOCK_BIT_LOG", "BLOCK_BITS", "RING_BLOCKS", "WINDOW_SIZE", "BLOCK_MASK", "BIT_MASK"]:
        m = find(f, r"const\s+%s\s*:\s*u64\s*=\s*([^;]+);" % name, what="const " + name)
        env[name] = rust_int(m.group(1), env)
        const("PW_" + name, env[name], f)
    # call-site limits of validate_packet_id
    for tag, rel in [("SERVER", "octo-squirrel-server/src/server/shadowsocks.rs"),
                     ("CLIENT", "octo-squirrel-client/src/client/shadowsocks.rs")]:
        m = find(rel, r"validate_packet_id\(\s*[\w\.]+\s*,\s*([^\)]+)\)", what="validate_packet_id call site")
        const("PW_LIMIT_" + tag, rust_int(m.group(1)), rel)

    # --- shadowsocks 2022 (C10, C03) ---
    f = "octo-squirrel/src/codec/shadowsocks/aead_2022.rs"
    for name, ty in [("SERVER_STREAM_TIMESTAMP_MAX_DIFF", "u64"), ("MIN_PADDING_LENGTH", "u16"), ("MAX_PADDING_LENGTH", "u16")]:
        m = find(f, r"const\s+%s\s*:\s*%s\s*=\s*([^;]+);" % (name, ty), what="const " + name)
        const("SS2022_" + name, rust_int(m.group(1)), f)
    m = find(f, r"if\s+diff\s*(>=|>)\s*SERVER_STREAM_TIMESTAMP_MAX_DIFF", what="timestamp comparison")
    L.append("Definition SS2022_TS_REJECT_IS_STRICT : bool := %s.  (* `diff %s MAX_DIFF` rejects *)" % ("true" if m.group(1) == ">" else "false", m.group(1)))
    facts["SS2022_TS_REJECT_IS_STRICT"] = (m.group(1) == ">")
    m = find(f, r"pub fn new_encoder.*?ChunkEncoder::new\(([^,]+),", re.S, what="2022 payload limit")
    const("SS2022_PAYLOAD_LIMIT", rust_int(m.group(1)), f)
    f = "octo-squirrel/src/codec/shadowsocks/aead.rs"
    m = find(f, r"pub fn new_encoder.*?ChunkEncoder::new\(([^,]+),", re.S, what="legacy payload limit")
    const("SS_LEGACY_PAYLOAD_LIMIT", rust_int(m.group(1)), f)
    m = find(f, r'hk\.expand\(b"([^"]+)"', what="hkdf info")
    L.append("Definition SS_SUBKEY_INFO : list N := %s.  (* %s *)" % (bytes_list(m.group(1).encode()), f))
    facts["SS_SUBKEY_INFO"] = m.group(1)

    # salt cache (C10)
    f = "octo-squirrel/src/codec/shadowsocks/tcp.rs"
    m = find(f, r"nonce_cache\s*=\s*Mutex::new\(LruCache::with_expiry_duration_and_capacity\(Duration::from_secs\((\d+)\)\s*,\s*(\d+)\)\)", what="salt cache ttl/capacity")
    const("SALT_CACHE_TTL", int(m.group(1)), f)
    const("SALT_CACHE_CAPACITY", int(m.group(2)), f)

    # KDF labels (C03)
    f = "octo-squirrel/src/codec/shadowsocks/aead_2022.rs"
    m = find(f, r'blake3::derive_key\("([^"]+)"', what="session subkey label")
    L.append("Definition SS2022_SESSION_LABEL : list N := %s." % bytes_list(m.group(1).encode()))
    facts["SS2022_SESSION_LABEL"] = m.group(1)
    f = "octo-squirrel/src/codec/shadowsocks/aead_2022/tcp.rs"
    m = find(f, r'blake3::derive_key\("([^"]+)"', what="identity subkey label")
    L.append("Definition SS2022_IDENTITY_LABEL : list N := %s." % bytes_list(m.group(1).encode()))
    facts["SS2022_IDENTITY_LABEL"] = m.group(1)

    # vmess (C10, C03)
    f = "octo-squirrel/src/protocol/vmess/aead/auth_id.rs"
    m = find(f, r"now\.abs_diff\(vmess::now\(\)\?\)\s*(<=|<)\s*(\d+)", what="vmess auth id time window")
    const("VMESS_AUTHID_WINDOW", int(m.group(2)), f)
    L.append("Definition VMESS_AUTHID_ACCEPT_IS_LE : bool := %s." % ("true" if m.group(1) == "<=" else "false"))
    facts["VMESS_AUTHID_ACCEPT_IS_LE"] = (m.group(1) == "<=")
    f = "octo-squirrel/src/codec/vmess/aead.rs"
    m = find(f, r"payload_limit:\s*(\d+)", what="vmess payload limit")
    const("VMESS_PAYLOAD_LIMIT", int(m.group(1)), f)
    m = find(f, r"\(self\.next\(\)\s*%\s*(\d+)\)\s*as usize", what="vmess padding modulus")
    const("VMESS_PADDING_MOD", int(m.group(1)), f)

    # mode bytes of shadowsocks 2022 stream types
    f = "octo-squirrel/src/protocol/shadowsocks.rs"
    s = src(f)
    m1 = re.search(r"pub fn to_u8.*?Self::Client\s*=>\s*(\d+).*?Self::Server\s*=>\s*(\d+)", s, re.S)
    m2 = re.search(r"pub fn expect_u8.*?Self::Client\s*=>\s*(\d+).*?Self::Server\s*=>\s*(\d+)", s, re.S)
    if not m1 or not m2:
        raise AnchorMissing(f + ": Mode::to_u8/expect_u8")
    const("SS_MODE_CLIENT_TO_U8", int(m1.group(1)), f)
    const("SS_MODE_SERVER_TO_U8", int(m1.group(2)), f)
    const("SS_MODE_CLIENT_EXPECT_U8", int(m2.group(1)), f)
    const("SS_MODE_SERVER_EXPECT_U8", int(m2.group(2)), f)

    # UDP table parameters (C02/C08)
    f = "octo-squirrel-server/src/server/shadowsocks.rs"
    m = find(f, r"let ttl = Duration::from_secs\((\d+)\);.*?let mut net_map[^=]*=\s*LruCache::with_expiry_duration_and_capacity\(ttl,\s*(\d+)\)", re.S, what="server assoc table")
    const("SERVER_ASSOC_TTL", int(m.group(1)), f)
    const("SERVER_ASSOC_CAPACITY", int(m.group(2)), f)
    f = "octo-squirrel-client/src/client/template.rs"
    m = find(f, r"let ttl = Duration::from_secs\((\d+)\);\s*let mut client_server_cache = LruCache::with_expiry_duration_and_capacity\(ttl,\s*(\d+)\)", re.S, what="client binding table")
    const("CLIENT_BINDING_TTL", int(m.group(1)), f)
    const("CLIENT_BINDING_CAPACITY", int(m.group(2)), f)

    header = ("(* GENERATED by tools/gen_from_source.py from /repo's working tree -- do not edit. *)\n"
              "From Coq Require Import NArith List.\nImport ListNotations.\nOpen Scope N_scope.\n\n")
    return header + "\n".join(L) + "\n", facts


# ------------------------------------------------------------------------------------------
def enum_serde_names(rel, enum_name):
    s = src(rel)
    m = re.search(r"pub enum %s\s*\{(.*?)\n\}" % enum_name, s, re.S)
    if not m:
        raise AnchorMissing("%s: enum %s" % (rel, enum_name))
    body = m.group(1)
    # container attribute
    pre = s[:m.start()]
    attrs = pre[pre.rfind("\n\n"):] if "\n\n" in pre else pre
    lower = "rename_all = \"lowercase\"" in attrs[-300:]
    out = []
    pend = []
    for line in body.splitlines():
        line = line.strip()
        if not line:
            continue
        ma = re.match(r"#\[serde\((.*)\)\]", line)
        if ma:
            for kv in re.finditer(r'(rename|alias)\s*=\s*"([^"]+)"', ma.group(1)):
                pend.append((kv.group(1), kv.group(2)))
            continue
        if line.startswith("#["):
            continue
        mv = re.match(r"(\w+)", line)
        if mv:
            var = mv.group(1)
            names = [v for k, v in pend]
            if not any(k == "rename" for k, v in pend):
                names = ([var.lower()] if lower else [var]) + names
            out.append((var, names))
            pend = []
    return out


def gen_tables():
    L = []
    facts = {}
    ck = enum_serde_names("octo-squirrel/src/codec/aead.rs", "CipherKind")
    pr = enum_serde_names("octo-squirrel/src/protocol.rs", "Protocol")
    md = enum_serde_names("octo-squirrel/src/config.rs", "Mode")
    facts["cipher_names"] = ck
    facts["protocol_names"] = pr
    facts["mode_names"] = md

    def table(name, rows):
        L.append("Definition %s : list (string * string) :=\n  [ %s ]." % (
            name, ";\n    ".join("(%s, %s)" % (coq_string(nm), coq_string(var)) for var, names in rows for nm in names)))
    table("cipher_names", [(v, ns) for v, ns in ck if v != "Unknown"])
    L.append("Definition cipher_unknown_is_nameable : bool := %s." % ("true" if any(v == "Unknown" and ns and ns != ["Unknown"] for v, ns in ck) else "false"))
    table("protocol_names", pr)
    table("mode_names", md)

    # enable_* arms
    s = src("octo-squirrel/src/config.rs")
    for fn in ["enable_tcp", "enable_udp", "enable_quic"]:
        m = re.search(r"pub fn %s\(&self\) -> bool \{\s*matches!\(self,\s*([^\)]+)\)" % fn, s)
        if not m:
            raise AnchorMissing("config.rs: " + fn)
        arms = [a.strip().replace("Self::", "") for a in m.group(1).split("|")]
        facts[fn] = arms
        L.append("Definition mode_%s : list string := [%s]." % (fn, "; ".join(coq_string(a) for a in arms)))

    # cipher kind properties: is_aead_2022, support_eih
    s = src("octo-squirrel/src/codec/aead.rs")
    for fn in ["is_aead_2022", "support_eih"]:
        m = re.search(r"pub const fn %s\(&self\) -> bool \{\s*matches!\(\s*self,\s*(.*?)\)\s*\}" % fn, s, re.S)
        if not m:
            raise AnchorMissing("aead.rs: " + fn)
        arms = [a.strip().replace("Self::", "") for a in m.group(1).replace("\n", " ").split("|")]
        arms = [a.strip() for a in arms if a.strip()]
        facts[fn] = arms
        L.append("Definition kind_%s : list string := [%s]." % (fn, "; ".join(coq_string(a) for a in arms)))

    # key-size dispatch in client.rs / server shadowsocks.rs: which kinds go to <16> and which to <32>
    def dispatch(rel, anchor):
        s = src(rel)
        i = s.find(anchor)
        if i < 0:
            raise AnchorMissing(rel + ": " + anchor)
        seg = s[i:i + 4000]
        m16 = re.search(r"((?:\s*\|?\s*CipherKind::\w+)+)\s*=>\s*\{[^{}]*?<16>", seg, re.S)
        m32 = re.search(r"((?:\s*\|?\s*CipherKind::\w+)+)\s*=>\s*\{[^{}]*?<32>", seg, re.S)
        if not m16 or not m32:
            raise AnchorMissing(rel + ": key-size dispatch arms")
        g = lambda m: re.findall(r"CipherKind::(\w+)", m.group(1))
        return g(m16), g(m32)
    c16, c32 = dispatch("octo-squirrel-client/src/client.rs", "async fn transfer_tcp")
    s16, s32 = dispatch("octo-squirrel-server/src/server/shadowsocks.rs", "pub async fn startup")
    for nm, v in [("client_n16", c16), ("client_n32", c32), ("server_n16", s16), ("server_n32", s32)]:
        facts[nm] = v
        L.append("Definition %s : list string := [%s]." % (nm, "; ".join(coq_string(a) for a in v)))

    header = ("(* GENERATED by tools/gen_from_source.py from /repo's working tree -- do not edit. *)\n"
              "From Coq Require Import String List.\nImport ListNotations.\nOpen Scope string_scope.\n\n")
    return header + "\n".join(L) + "\n", facts


# ------------------------------------------------------------------------------------------
SHARED_PATTERNS = [
    ("static", r"^\s*(?:pub\s+)?static\s+(?:mut\s+)?(\w+)"),
    ("mutex_new", r"Mutex::new\("),
    ("try_lock", r"\.try_lock\(\)"),
    ("lock", r"\.lock\(\)"),
    ("unsafe", r"\bunsafe\b"),
    ("cast_mut", r"cast_mut\(\)"),
    ("from_utf8_unchecked", r"from_utf8_unchecked"),
    ("from_raw_parts", r"from_raw_parts"),
    ("advance_mut", r"advance_mut"),
    ("get_unchecked", r"get_unchecked"),
    ("box_leak", r"Box::leak"),
]


def gen_shared():
    rows = []
    for crate in ["octo-squirrel", "octo-squirrel-client", "octo-squirrel-server"]:
        base = os.path.join(REPO, crate, "src")
        for root, _, files in os.walk(base):
            for fn in sorted(files):
                if not fn.endswith(".rs"):
                    continue
                rel = os.path.relpath(os.path.join(root, fn), REPO)
                in_test = False
                for i, line in enumerate(open(os.path.join(root, fn), encoding="utf-8"), 1):
                    if re.match(r"\s*#\[cfg\(test\)\]", line):
                        in_test = True
                    if in_test:
                        continue
                    code = line.split("//")[0]
                    for kind, pat in SHARED_PATTERNS:
                        if re.search(pat, code):
                            rows.append((kind, rel, code.strip()))
    rows.sort()
    # line numbers are deliberately NOT part of the inventory (harmless edits move them);
    # the inventory is the multiset of (kind, file, normalised statement)
    L = ["Definition shared_inventory : list (string * string * string) :=\n  [ %s ]." % ";\n    ".join(
        "(%s, %s, %s)" % (coq_string(k), coq_string(f), coq_string(re.sub(r"\s+", " ", c))) for k, f, c in rows)]
    header = ("(* GENERATED by tools/gen_from_source.py from /repo's working tree -- do not edit. *)\n"
              "From Coq Require Import String List.\nImport ListNotations.\nOpen Scope string_scope.\n\n")
    return header + "\n".join(L) + "\n", {"shared_inventory": rows}


def write_if_changed(path, content):
    try:
        if open(path, encoding="utf-8").read() == content:
            return False
    except FileNotFoundError:
        pass
    os.makedirs(os.path.dirname(path), exist_ok=True)
    with open(path, "w", encoding="utf-8") as f:
        f.write(content)
    return True


def main():
    facts = {}
    errors = []
    for name, fn in [("Params", gen_params), ("Tables", gen_tables), ("Shared", gen_shared)]:
        try:
            text, fc = fn()
            facts.update(fc)
            write_if_changed(os.path.join(OUT, name + ".v"), text)
        except AnchorMissing as e:
            errors.append(str(e))
    if "--json" in sys.argv:
        json.dump({"facts": facts, "errors": errors}, sys.stdout, default=str)
        print()
    for e in errors:
        print("ANCHOR-MISSING: " + e, file=sys.stderr)
    sys.exit(2 if errors else 0)


if __name__ == "__main__":
    main()
