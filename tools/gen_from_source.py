#!/usr/bin/env python3
"""Tie A: regenerate coq/Generated/*.v from /repo's current source.

A deliberately small, anchored extractor: every item is located by a regular expression on a
specific statement of a specific file and the script fails loudly (exit 2, message naming the
anchor) when an anchor is not found -- a missing anchor is reported by ./check as a broken tie,
never silently skipped.  Only constants, name tables and inventories are read here; everything
behavioural goes through the correspondence harness (tie B) -- with one exception: gen_exit_paths()
reads the ORDER OF STATEMENTS of the per-flow functions (exit paths, C15) and refuses every statement
it does not recognise, and gen_loop_shapes() reads the SHAPE of the long-lived service loops (which failure ends which
loop, C08) with the same strictness, and gen_udp_adapters() reads WHAT THE PER-PROTOCOL UDP ADAPTER FUNCTIONS RETURN (binding key,
outgoing datagram, reply label; C02 / C09) by evaluating their bodies symbolically, and gen_readme() reads the MARKDOWN of /repo/README.md
(Transport and Ciphers tables, the `mode` / `protocol` option lists, the notes of the optional sections; C16) as plain data, so that the
documented side of C16 is regenerated too.  VERIF_REPO=<dir> reads another source tree than /repo.
"""
import os, re, sys, json

REPO = os.environ.get("VERIF_REPO", "/repo")
OUT = os.environ.get("VERIF_GEN_OUT") or os.path.join(os.path.dirname(os.path.abspath(__file__)), "..", "coq", "Generated")   # developer override only


class AnchorMissing(Exception):
    pass


def src(rel):
    with open(os.path.join(REPO, rel), encoding="utf-8") as f:
        return f.read()


def find(rel, pattern, flags=0, what=None):
    m = re.search(pattern, src(rel), flags)
    if not m:
        raise AnchorMissing("%s: anchor not found: %s" % (rel, what or pattern))
    return m


def rust_int(expr, env=None):
    """Evaluate a Rust integer constant expression made of literals, names, << - * + ( )."""
    env = env or {}
    e = expr.strip()
    e = re.sub(r"_(?=\d)", "", e)
    e = re.sub(r"(\d)(u8|u16|u32|u64|usize|i32|i64)\b", r"\1", e)
    e = e.replace("u64::MAX", str(2**64 - 1)).replace("u16::MAX", "65535").replace("u8::MAX", "255")
    if not re.fullmatch(r"[\w\s<>\-\+\*\(\)x]+", e):
        raise AnchorMissing("cannot evaluate constant expression %r" % expr)
    return int(eval(e, {"__builtins__": {}}, dict(env)))


def n(v):
    return "%d%%N" % v


def coq_string(s):
    return '"' + s.replace('"', '""') + '"'


def bytes_list(b):
    return "[" + "; ".join(str(x) for x in b) + "]%N"


# ------------------------------------------------------------------------------------------
def gen_params():
    L = []
    facts = {}

    def const(name, value, origin):
        facts[name] = value
        L.append("Definition %s : N := %s.  (* %s *)" % (name, n(value), origin))

    # --- packet window (C11) ---
    f = "octo-squirrel/src/manager/packet_window.rs"
    env = {}
    for name in ["BLOCK_BIT_LOG", "BLOCK_BITS", "RING_BLOCKS", "WINDOW_SIZE", "BLOCK_MASK", "BIT_MASK"]:
        m = find(f, r"const\s+%s\s*:\s*u64\s*=\s*([^;]+);" % name, what="const " + name)
        env[name] = rust_int(m.group(1), env)
        const("PW_" + name, env[name], f)
    # call-site limits of validate_packet_id
    for tag, rel in [("SERVER", "octo-squirrel-server/src/server/shadowsocks.rs"),
                     ("CLIENT", "octo-squirrel-client/src/client/shadowsocks.rs")]:
        m = find(rel, r"validate_packet_id\(\s*[\w\.]+\s*,\s*([^\)]+)\)", what="validate_packet_id call site")
        const("PW_LIMIT_" + tag, rust_int(m.group(1)), rel)
    # the client keeps one window per server session: how many, and which one makes room (DatagramPacketCodec::filter_of)
    rel = "octo-squirrel-client/src/client/shadowsocks.rs"
    m = find(rel, r"const\s+MAX_SERVER_SESSIONS\s*:\s*usize\s*=\s*([^;]+);", what="const MAX_SERVER_SESSIONS")
    const("SSUDP_CLIENT_MAX_SERVER_SESSIONS", rust_int(m.group(1)), rel)
    m = find(rel, r"if\s+self\.filters\.len\(\)\s*==\s*MAX_SERVER_SESSIONS\s*\{\s*self\.filters\.remove\((\d+)\);\s*\}\s*self\.filters\.push\(\(server_session_id,\s*PacketWindowFilter::default\(\)\)\);",
             what="filter_of: eviction of one entry when MAX_SERVER_SESSIONS are held, then push of a default window")
    const("SSUDP_CLIENT_EVICTED_INDEX", int(m.group(1)), rel)

    # --- shadowsocks 2022 (C10, C03) ---
    f = "octo-squirrel/src/codec/shadowsocks/aead_2022.rs"
    for name, ty in [("SERVER_STREAM_TIMESTAMP_MAX_DIFF", "u64"), ("MIN_PADDING_LENGTH", "u16"), ("MAX_PADDING_LENGTH", "u16")]:
        m = find(f, r"const\s+%s\s*:\s*%s\s*=\s*([^;]+);" % (name, ty), what="const " + name)
        const("SS2022_" + name, rust_int(m.group(1)), f)
    m = find(f, r"if\s+diff\s*(>=|>)\s*SERVER_STREAM_TIMESTAMP_MAX_DIFF", what="timestamp comparison")
    L.append("Definition SS2022_TS_REJECT_IS_STRICT : bool := %s.  (* `diff %s MAX_DIFF` rejects *)" % ("true" if m.group(1) == ">" else "false", m.group(1)))
    facts["SS2022_TS_REJECT_IS_STRICT"] = (m.group(1) == ">")
    m = find(f, r"pub fn new_encoder.*?ChunkEncoder::new\(([^,]+),", re.S, what="2022 payload limit")
    const("SS2022_PAYLOAD_LIMIT", rust_int(m.group(1)), f)
    f = "octo-squirrel/src/codec/shadowsocks/aead.rs"
    m = find(f, r"pub fn new_encoder.*?ChunkEncoder::new\(([^,]+),", re.S, what="legacy payload limit")
    const("SS_LEGACY_PAYLOAD_LIMIT", rust_int(m.group(1)), f)
    m = find(f, r'hk\.expand\(b"([^"]+)"', what="hkdf info")
    L.append("Definition SS_SUBKEY_INFO : list N := %s.  (* %s *)" % (bytes_list(m.group(1).encode()), f))
    facts["SS_SUBKEY_INFO"] = m.group(1)

    # salt cache (C10)
    f = "octo-squirrel/src/codec/shadowsocks/tcp.rs"
    m = find(f, r"nonce_cache\s*=\s*Mutex::new\(LruCache::with_expiry_duration_and_capacity\(Duration::from_secs\((\d+)\)\s*,\s*(\d+)\)\)", what="salt cache ttl/capacity")
    const("SALT_CACHE_TTL", int(m.group(1)), f)
    const("SALT_CACHE_CAPACITY", int(m.group(2)), f)

    # KDF labels (C03)
    f = "octo-squirrel/src/codec/shadowsocks/aead_2022.rs"
    m = find(f, r'blake3::derive_key\("([^"]+)"', what="session subkey label")
    L.append("Definition SS2022_SESSION_LABEL : list N := %s." % bytes_list(m.group(1).encode()))
    facts["SS2022_SESSION_LABEL"] = m.group(1)
    f = "octo-squirrel/src/codec/shadowsocks/aead_2022/tcp.rs"
    m = find(f, r'blake3::derive_key\("([^"]+)"', what="identity subkey label")
    L.append("Definition SS2022_IDENTITY_LABEL : list N := %s." % bytes_list(m.group(1).encode()))
    facts["SS2022_IDENTITY_LABEL"] = m.group(1)

    # vmess (C10, C03)
    f = "octo-squirrel/src/protocol/vmess/aead/auth_id.rs"
    m = find(f, r"now\.abs_diff\(vmess::now\(\)\?\)\s*(<=|<)\s*(\d+)", what="vmess auth id time window")
    const("VMESS_AUTHID_WINDOW", int(m.group(2)), f)
    L.append("Definition VMESS_AUTHID_ACCEPT_IS_LE : bool := %s." % ("true" if m.group(1) == "<=" else "false"))
    facts["VMESS_AUTHID_ACCEPT_IS_LE"] = (m.group(1) == "<=")
    f = "octo-squirrel/src/codec/vmess/aead.rs"
    m = find(f, r"payload_limit:\s*(\d+)", what="vmess payload limit")
    const("VMESS_PAYLOAD_LIMIT", int(m.group(1)), f)
    m = find(f, r"\(self\.next\(\)\s*%\s*(\d+)\)\s*as usize", what="vmess padding modulus")
    const("VMESS_PADDING_MOD", int(m.group(1)), f)

    # mode bytes of shadowsocks 2022 stream types
    f = "octo-squirrel/src/protocol/shadowsocks.rs"
    s = src(f)
    m1 = re.search(r"pub fn to_u8.*?Self::Client\s*=>\s*(\d+).*?Self::Server\s*=>\s*(\d+)", s, re.S)
    m2 = re.search(r"pub fn expect_u8.*?Self::Client\s*=>\s*(\d+).*?Self::Server\s*=>\s*(\d+)", s, re.S)
    if not m1 or not m2:
        raise AnchorMissing(f + ": Mode::to_u8/expect_u8")
    const("SS_MODE_CLIENT_TO_U8", int(m1.group(1)), f)
    const("SS_MODE_SERVER_TO_U8", int(m1.group(2)), f)
    const("SS_MODE_CLIENT_EXPECT_U8", int(m2.group(1)), f)
    const("SS_MODE_SERVER_EXPECT_U8", int(m2.group(2)), f)

    # UDP table parameters (C02/C08)
    f = "octo-squirrel-server/src/server/shadowsocks.rs"
    m = find(f, r"let ttl = Duration::from_secs\((\d+)\);.*?let mut net_map[^=]*=\s*LruCache::with_expiry_duration_and_capacity\(ttl,\s*(\d+)\)", re.S, what="server assoc table")
    const("SERVER_ASSOC_TTL", int(m.group(1)), f)
    const("SERVER_ASSOC_CAPACITY", int(m.group(2)), f)
    f = "octo-squirrel-client/src/client/template.rs"
    m = find(f, r"let ttl = Duration::from_secs\((\d+)\);\s*let mut client_server_cache = LruCache::with_expiry_duration_and_capacity\(ttl,\s*(\d+)\)", re.S, what="client binding table")
    const("CLIENT_BINDING_TTL", int(m.group(1)), f)
    const("CLIENT_BINDING_CAPACITY", int(m.group(2)), f)

    header = ("(* GENERATED by tools/gen_from_source.py from /repo's working tree -- do not edit. *)\n"
              "From Coq Require Import NArith List.\nImport ListNotations.\nOpen Scope N_scope.\n\n")
    return header + "\n".join(L) + "\n", facts


# ------------------------------------------------------------------------------------------
def enum_serde_names(rel, enum_name):
    s = src(rel)
    m = re.search(r"pub enum %s\s*\{(.*?)\n\}" % enum_name, s, re.S)
    if not m:
        raise AnchorMissing("%s: enum %s" % (rel, enum_name))
    body = m.group(1)
    # container attribute
    pre = s[:m.start()]
    attrs = pre[pre.rfind("\n\n"):] if "\n\n" in pre else pre
    lower = "rename_all = \"lowercase\"" in attrs[-300:]
    out = []
    pend = []
    for line in body.splitlines():
        line = line.strip()
        if not line:
            continue
        ma = re.match(r"#\[serde\((.*)\)\]", line)
        if ma:
            for kv in re.finditer(r'(rename|alias)\s*=\s*"([^"]+)"', ma.group(1)):
                pend.append((kv.group(1), kv.group(2)))
            continue
        if line.startswith("#["):
            continue
        mv = re.match(r"(\w+)", line)
        if mv:
            var = mv.group(1)
            names = [v for k, v in pend]
            if not any(k == "rename" for k, v in pend):
                names = ([var.lower()] if lower else [var]) + names
            out.append((var, names))
            pend = []
    return out


def gen_tables():
    L = []
    facts = {}
    ck = enum_serde_names("octo-squirrel/src/codec/aead.rs", "CipherKind")
    pr = enum_serde_names("octo-squirrel/src/protocol.rs", "Protocol")
    md = enum_serde_names("octo-squirrel/src/config.rs", "Mode")
    facts["cipher_names"] = ck
    facts["protocol_names"] = pr
    facts["mode_names"] = md

    def table(name, rows):
        L.append("Definition %s : list (string * string) :=\n  [ %s ]." % (
            name, ";\n    ".join("(%s, %s)" % (coq_string(nm), coq_string(var)) for var, names in rows for nm in names)))
    table("cipher_names", [(v, ns) for v, ns in ck if v != "Unknown"])
    L.append("Definition cipher_unknown_is_nameable : bool := %s." % ("true" if any(v == "Unknown" and ns and ns != ["Unknown"] for v, ns in ck) else "false"))
    table("protocol_names", pr)
    table("mode_names", md)

    # enable_* arms
    s = src("octo-squirrel/src/config.rs")
    for fn in ["enable_tcp", "enable_udp", "enable_quic"]:
        m = re.search(r"pub fn %s\(&self\) -> bool \{\s*matches!\(self,\s*([^\)]+)\)" % fn, s)
        if not m:
            raise AnchorMissing("config.rs: " + fn)
        arms = [a.strip().replace("Self::", "") for a in m.group(1).split("|")]
        facts[fn] = arms
        L.append("Definition mode_%s : list string := [%s]." % (fn, "; ".join(coq_string(a) for a in arms)))

    # cipher kind properties: is_aead_2022, support_eih
    s = src("octo-squirrel/src/codec/aead.rs")
    for fn in ["is_aead_2022", "support_eih"]:
        m = re.search(r"pub const fn %s\(&self\) -> bool \{\s*matches!\(\s*self,\s*(.*?)\)\s*\}" % fn, s, re.S)
        if not m:
            raise AnchorMissing("aead.rs: " + fn)
        arms = [a.strip().replace("Self::", "") for a in m.group(1).replace("\n", " ").split("|")]
        arms = [a.strip() for a in arms if a.strip()]
        facts[fn] = arms
        L.append("Definition kind_%s : list string := [%s]." % (fn, "; ".join(coq_string(a) for a in arms)))

    # key-size dispatch in client.rs / server shadowsocks.rs: which kinds go to <16> and which to <32>
    def dispatch(rel, anchor):
        s = src(rel)
        i = s.find(anchor)
        if i < 0:
            raise AnchorMissing(rel + ": " + anchor)
        seg = s[i:i + 4000]
        m16 = re.search(r"((?:\s*\|?\s*CipherKind::\w+)+)\s*=>\s*\{[^{}]*?<16>", seg, re.S)
        m32 = re.search(r"((?:\s*\|?\s*CipherKind::\w+)+)\s*=>\s*\{[^{}]*?<32>", seg, re.S)
        if not m16 or not m32:
            raise AnchorMissing(rel + ": key-size dispatch arms")
        g = lambda m: re.findall(r"CipherKind::(\w+)", m.group(1))
        return g(m16), g(m32)
    c16, c32 = dispatch("octo-squirrel-client/src/client.rs", "async fn transfer_tcp")
    s16, s32 = dispatch("octo-squirrel-server/src/server/shadowsocks.rs", "pub async fn startup")
    for nm, v in [("client_n16", c16), ("client_n32", c32), ("server_n16", s16), ("server_n32", s32)]:
        facts[nm] = v
        L.append("Definition %s : list string := [%s]." % (nm, "; ".join(coq_string(a) for a in v)))

    header = ("(* GENERATED by tools/gen_from_source.py from /repo's working tree -- do not edit. *)\n"
              "From Coq Require Import String List.\nImport ListNotations.\nOpen Scope string_scope.\n\n")
    return header + "\n".join(L) + "\n", facts


# ------------------------------------------------------------------------------------------
# C16: configuration -> behaviour tables (transport matches, startup paths, key-derivation calls)
def _fn_body(rel, header_re, what):
    """text of the item that starts at `header_re` up to the closing brace at the header's own indentation"""
    s = src(rel)
    m = re.search(header_re, s)
    if not m:
        raise AnchorMissing("%s: %s" % (rel, what))
    line_start = s.rfind("\n", 0, m.start()) + 1
    indent = re.match(r"[ \t]*", s[line_start:]).group(0)
    e = re.search(r"\n%s\}" % indent, s[m.end():])
    if not e:
        raise AnchorMissing("%s: end of %s" % (rel, what))
    return s[m.start():m.end() + e.end()]


def _pat(p):
    p = p.strip()
    if p == "_" or re.fullmatch(r"[a-z_]\w*", p):
        return "_"          # wildcard or a binding: matches both
    if p == "None":
        return "None"
    if re.fullmatch(r"Some\([\w_]+\)", p):
        return "Some"
    raise AnchorMissing("unsupported Option pattern %r in a transport match" % p)


def _strlist(xs):
    return "[" + "; ".join(coq_string(x) for x in xs) + "]"


def gen_config():
    L = []
    facts = {}

    def emit(name, ty, value, fact, origin):
        facts[name] = fact
        L.append("Definition %s : %s := %s.  (* %s *)" % (name, ty, value, origin))

    # --- every serde name of CipherKind, INCLUDING the names of the default variant ---
    f = "octo-squirrel/src/codec/aead.rs"
    ck = enum_serde_names(f, "CipherKind")
    enum_body = _fn_body(f, r"pub enum CipherKind\s*\{", "enum CipherKind")
    m = re.search(r"#\[default\]\s*(?:#\[[^\]]*\]\s*)*(\w+)\s*,", enum_body)
    if not m:
        raise AnchorMissing(f + ": #[default] variant of CipherKind")
    emit("cipher_default_variant", "string", coq_string(m.group(1)), m.group(1), f + " #[default]")
    # variants carrying #[serde(skip)] / #[serde(skip_deserializing)] have NO name a configuration can use
    skipped = re.findall(r"#\[serde\((?:[^\]]*,\s*)?(?:skip|skip_deserializing)(?:\s*,[^\]]*)?\)\]\s*(?:#\[[^\]]*\]\s*)*(\w+)\s*,", enum_body)
    emit("cipher_not_deserializable", "list string", _strlist(skipped), skipped, f + " #[serde(skip_deserializing)] variants")
    rows = [(nm, var) for var, names in ck for nm in names if var not in skipped]
    emit("cipher_names_all", "list (string * string)",
         "[ " + ";\n    ".join("(%s, %s)" % (coq_string(a), coq_string(b)) for a, b in rows) + " ]", rows, f + " serde names, default variant included")
    find("octo-squirrel/src/config.rs", r"#\[serde\(default\)\]\s*pub cipher: CipherKind", what="ServerConfig.cipher is #[serde(default)]")
    find("octo-squirrel/src/config.rs", r"#\[serde\(default\)\]\s*pub mode: Mode", what="ServerConfig.mode is #[serde(default)]")
    m = find("octo-squirrel/src/config.rs", r"impl Default for Mode \{\s*fn default\(\) -> Self \{\s*Self::(\w+)", what="Mode::default")
    emit("mode_default_variant", "string", coq_string(m.group(1)), m.group(1), "config.rs Mode::default")

    # --- kind -> AEAD algorithm (CipherMethod::new) and the tag-size dispatch (kind_match_aead!) ---
    body = _fn_body(f, r"pub fn new\(kind: CipherKind, key: &\[u8\]\) -> Self \{", "CipherMethod::new")
    arms = re.findall(r"((?:\|?\s*CipherKind::\w+\s*)+)=>\s*\{[^{}]*?Self::(\w+)\(", body, re.S)
    if not arms:
        raise AnchorMissing(f + ": CipherMethod::new arms")
    rows = [(k, algo) for ks, algo in arms for k in re.findall(r"CipherKind::(\w+)", ks)]
    mu = re.search(r"CipherKind::(\w+)\s*=>\s*panic!", body)
    emit("kind_algo", "list (string * string)", "[" + "; ".join("(%s, %s)" % (coq_string(a), coq_string(b)) for a, b in rows) + "]", rows, f + " CipherMethod::new")
    emit("kind_algo_panics", "list string", _strlist([mu.group(1)] if mu else []), [mu.group(1)] if mu else [], f + " CipherMethod::new panic arm")
    body = _fn_body(f, r"macro_rules! kind_match_aead \{", "kind_match_aead!")
    arms = re.findall(r"((?:\|?\s*Self::\w+\s*)+)=>\s*<(\w+) as \$trait>", body)
    if not arms:
        raise AnchorMissing(f + ": kind_match_aead! arms")
    rows = [(k, algo) for ks, algo in arms for k in re.findall(r"Self::(\w+)", ks)]
    emit("kind_tag_algo", "list (string * string)", "[" + "; ".join("(%s, %s)" % (coq_string(a), coq_string(b)) for a, b in rows) + "]", rows, f + " kind_match_aead!")
    mu = re.search(r"Self::(\w+)\s*=>\s*panic!", body)
    emit("kind_tag_panics", "list string", _strlist([mu.group(1)] if mu else []), [mu.group(1)] if mu else [], f + " kind_match_aead! panic arm")

    # --- client: match (protocol, ssl, ws, quic) of transfer_udp ---
    f = "octo-squirrel-client/src/client.rs"
    body = _fn_body(f, r"async fn transfer_udp\(", "transfer_udp")
    if not re.search(r"match \(current\.protocol, &current\.ssl, &current\.ws, &current\.quic\) \{", body):
        raise AnchorMissing(f + ": match (current.protocol, &current.ssl, &current.ws, &current.quic)")
    heads = list(re.finditer(r"\n        \((\w+), ([^,()]+|Some\(\w+\)), ([^,()]+|Some\(\w+\)), ([^,()]+|Some\(\w+\))\) => ", body))
    if len(heads) < 3:
        raise AnchorMissing(f + ": arms of the transport match in transfer_udp")
    rows = []
    for i, h in enumerate(heads):
        seg = body[h.end():heads[i + 1].start() if i + 1 < len(heads) else len(body)]
        outs = sorted(set(re.findall(r"\b(new_\w+_outbound)\b", seg)))
        if len(outs) != 1:
            raise AnchorMissing(f + ": transfer_udp arm %s must name exactly one new_*_outbound, found %r" % (h.group(0).strip(), outs))
        rows.append((h.group(1), _pat(h.group(2)), _pat(h.group(3)), _pat(h.group(4)), outs[0]))
    emit("client_udp_table", "list (string * string * string * string * string)",
         "[ " + ";\n    ".join("(%s)" % ", ".join(coq_string(x) for x in r) for r in rows) + " ]", rows, f + " transfer_udp")
    # the same function: key-size dispatch on UDP and what an absent cipher does
    m = re.search(r"CipherKind::Unknown => \{\s*(\w+)!\(\"([^\"]+)\"\);\s*Ok\(\(\)\)", body)
    if not m:
        raise AnchorMissing(f + ": transfer_udp CipherKind::Unknown arm")
    emit("client_udp_unknown", "string * string", "(%s, %s)" % (coq_string(m.group(1)), coq_string(m.group(2))), [m.group(1), m.group(2)], f)
    body_t = _fn_body(f, r"async fn transfer_tcp\(", "transfer_tcp")
    m = re.search(r"CipherKind::Unknown => (\w+)!\(\"([^\"]+)\"\)", body_t)
    if not m:
        raise AnchorMissing(f + ": transfer_tcp CipherKind::Unknown arm")
    emit("client_tcp_unknown", "string * string", "(%s, %s)" % (coq_string(m.group(1)), coq_string(m.group(2))), [m.group(1), m.group(2)], f)
    def udp_dispatch(seg):
        m16 = re.search(r"((?:\s*\|?\s*CipherKind::\w+)+)\s*=>\s*\{[^{}]*?<16>", seg, re.S)
        m32 = re.search(r"((?:\s*\|?\s*CipherKind::\w+)+)\s*=>\s*\{[^{}]*?<32>", seg, re.S)
        if not m16 or not m32:
            raise AnchorMissing(f + ": transfer_udp key-size dispatch arms")
        g = lambda m: re.findall(r"CipherKind::(\w+)", m.group(1))
        return g(m16), g(m32)
    u16, u32 = udp_dispatch(body)
    emit("client_udp_n16", "list string", _strlist(u16), u16, f + " transfer_udp <16>")
    emit("client_udp_n32", "list string", _strlist(u32), u32, f + " transfer_udp <32>")
    # protocols of transfer_tcp that go through the cipher match (the others ignore `cipher`... see vmess below)
    protos = re.findall(r"\n        (\w+) => ", body_t)
    emit("client_tcp_protocol_arms", "list string", _strlist(protos), protos, f + " transfer_tcp")

    # --- client main: which predicate guards which bind ---
    body = _fn_body(f, r"pub async fn main\(\)", "client main")
    guards = re.findall(r"if config\.mode\.(enable_\w+)\(\) \{\s*let \w+ = (UdpSocket|TcpListener)::bind\(listen_addr\)", body)
    if sorted(g[1] for g in guards) != ["TcpListener", "UdpSocket"]:
        raise AnchorMissing(f + ": main must bind one UdpSocket and one TcpListener, each under `if config.mode.enable_*()`; found %r" % (guards,))
    emit("client_main_guards", "list (string * string)", "[" + "; ".join("(%s, %s)" % (coq_string(b), coq_string(a)) for a, b in guards) + "]",
         [(b, a) for a, b in guards], f + " main")
    first_bind = re.search(r"(UdpSocket|TcpListener)::bind\(", body).start()
    refuses = re.findall(r"if config\.mode\.(enable_\w+)\(\) \{\s*bail!\(", body[:first_bind])
    emit("client_main_refuses", "list string", _strlist(refuses), refuses, f + " main: `if config.mode.<this>() { bail!(..) }` before any bind")
    keeps = bool(re.search(r"if let Some\(udp_task\) = udp_task \{\s*udp_task\.await", body))
    emit("client_main_awaits_udp_task", "bool", "true" if keeps else "false", keeps, f + " main")

    # --- client template: match (ssl, ws, quic) of try_transfer_tcp ---
    f = "octo-squirrel-client/src/client/template.rs"
    body = _fn_body(f, r"pub async fn try_transfer_tcp<", "try_transfer_tcp")
    if not re.search(r"match \(&config\.ssl, &config\.ws, &config\.quic\) \{", body):
        raise AnchorMissing(f + ": match (&config.ssl, &config.ws, &config.quic)")
    heads = list(re.finditer(r"\n        \(([^,()]+|Some\(\w+\)), ([^,()]+|Some\(\w+\)), ([^,()]+|Some\(\w+\))\) => \{", body))
    if len(heads) < 2:
        raise AnchorMissing(f + ": arms of the transport match in try_transfer_tcp")
    rows = []
    for i, h in enumerate(heads):
        seg = body[h.end():heads[i + 1].start() if i + 1 < len(heads) else len(body)]
        outs = sorted(set(re.findall(r"\b(new_\w+_outbound)\b", seg)))
        if len(outs) != 1:
            raise AnchorMissing(f + ": try_transfer_tcp arm must name exactly one new_*_outbound, found %r" % (outs,))
        rows.append((_pat(h.group(1)), _pat(h.group(2)), _pat(h.group(3)), outs[0]))
    emit("client_tcp_table", "list (string * string * string * string)",
         "[ " + ";\n    ".join("(%s)" % ", ".join(coq_string(x) for x in r) for r in rows) + " ]", rows, f + " try_transfer_tcp")

    # --- server: startup per protocol, startup_tcp (ssl, ws) arms, startup_quic guard ---
    f = "octo-squirrel-server/src/server.rs"
    body = _fn_body(f, r"async fn startup\(config: ServerConfig<SslConfig>\)", "server startup")
    heads = list(re.finditer(r"\n        Protocol::(\w+) => ", body))
    if not heads:
        raise AnchorMissing(f + ": startup protocol arms")
    rows = []
    for i, h in enumerate(heads):
        seg = body[h.end():heads[i + 1].start() if i + 1 < len(heads) else len(body)]
        calls = re.findall(r"\b((?:\w+::)?startup(?:_\w+)?)\(", seg)
        if not calls:
            raise AnchorMissing(f + ": startup arm %s calls no startup function" % h.group(1))
        rows.append((h.group(1), calls))
    emit("server_startup", "list (string * list string)", "[" + "; ".join("(%s, %s)" % (coq_string(p), _strlist(c)) for p, c in rows) + "]", rows, f + " startup")
    body = _fn_body(f, r"async fn startup_tcp<", "server startup_tcp")
    if not re.search(r"let listener = TcpListener::bind\(", body.split("match (&config.ssl, &config.ws)")[0]):
        raise AnchorMissing(f + ": startup_tcp binds unconditionally before the transport match")
    heads = list(re.finditer(r"\n        \((None|Some\(\w+\)), (\w+)\) => ", body))
    if len(heads) != 2:
        raise AnchorMissing(f + ": startup_tcp must have exactly the arms (None, ws) and (Some(ssl), ws)")
    rows = []
    for i, h in enumerate(heads):
        seg = body[h.end():heads[i + 1].start() if i + 1 < len(heads) else len(body)]
        tls = "TlsAcceptor" in seg
        ws = bool(re.search(r"%s\.is_some\(\)" % re.escape(h.group(2)), seg)) and "accept_websocket_then_replay" in seg and "template::tcp::relay" in seg
        rows.append((_pat(h.group(1)), tls, ws))
    emit("server_tcp_table", "list (string * bool * bool)",
         "[" + "; ".join("(%s, %s, %s)" % (coq_string(a), "true" if b else "false", "true" if c else "false") for a, b, c in rows) + "]", rows,
         f + " startup_tcp: ssl pattern, TLS acceptor used, websocket exactly when the ws section is present")
    body = _fn_body(f, r"async fn startup_quic<", "server startup_quic")
    m = re.search(r"\{\s*if let Some\(\w+\) = &config\.quic \{.*\n    \}\n    Ok\(\(\)\)\n\}\Z", body, re.S)
    emit("server_quic_needs_section", "bool", "true" if m else "false", bool(m), f + " startup_quic: `if let Some(..) = &config.quic {..} Ok(())`")
    if not m:
        raise AnchorMissing(f + ": startup_quic is no longer `if let Some(..) = &config.quic { .. } Ok(())`")

    # --- shadowsocks server: mode tests ---
    f = "octo-squirrel-server/src/server/shadowsocks.rs"
    body = _fn_body(f, r"pub async fn startup\(", "shadowsocks startup")
    joined = re.findall(r"tokio::join!\(\s*(startup_\w+)::<\d+>\([^)]*\),\s*(startup_\w+)::<\d+>\([^)]*\)\)", body)
    if len(joined) != 2 or joined[0] != joined[1]:
        raise AnchorMissing(f + ": both key-size arms must join the same two startup functions; found %r" % (joined,))
    emit("ss_server_joined", "list string", _strlist(list(joined[0])), list(joined[0]), f + " startup")
    pre = body.split("match config.cipher")[0]
    needs = re.findall(r"if config\.mode\.(enable_\w+)\(\) && config\.quic\.is_none\(\) \{\s*bail!\(", pre)
    emit("ss_server_requires_quic_section", "list string", _strlist(needs), needs,
         f + " startup: `if config.mode.<this>() && config.quic.is_none() { bail!(..) }` before the cipher match and the join")
    m = re.search(r"CipherKind::Unknown => (\w+)!\(\"([^\"]+)\"\)", body)
    if not m:
        raise AnchorMissing(f + ": startup CipherKind::Unknown arm")
    emit("ss_server_unknown", "string * string", "(%s, %s)" % (coq_string(m.group(1)), coq_string(m.group(2))), [m.group(1), m.group(2)], f)
    body = _fn_body(f, r"async fn startup_tcp<", "shadowsocks startup_tcp")
    m = re.search(r"\{\s*if ((?:!config\.mode\.enable_\w+\(\)(?: && )?)+) \{\s*return Ok\(\(\)\);\s*\}(.*)\Z", body, re.S)
    if not m or "super::startup_tcp(" not in m.group(2):
        raise AnchorMissing(f + ": startup_tcp early return on the mode")
    g = re.findall(r"!config\.mode\.(enable_\w+)\(\)", m.group(1))
    emit("ss_server_tcp_guard", "list string", _strlist(g), g, f + " startup_tcp returns early unless one of these holds")
    body = _fn_body(f, r"async fn startup_udp<", "shadowsocks startup_udp")
    m = re.search(r"\{\s*if ((?:!config\.mode\.enable_\w+\(\)(?: && )?)+) \{\s*return Ok\(\(\)\);\s*\}\s*if config\.mode\.(enable_\w+)\(\) \{(.*)\n    \} else \{(.*)\n    \}\n\}\Z", body, re.S)
    if not m:
        raise AnchorMissing(f + ": startup_udp shape `if !a && !b {return} if udp {..} else {..}`")
    g = re.findall(r"!config\.mode\.(enable_\w+)\(\)", m.group(1))
    emit("ss_server_udp_guard", "list string", _strlist(g), g, f + " startup_udp returns early unless one of these holds")
    if "UdpSocket::bind(" not in m.group(3) or "super::startup_quic(" not in m.group(4):
        raise AnchorMissing(f + ": startup_udp branches (UdpSocket::bind | super::startup_quic)")
    quic_branch = m.group(4)
    needs = bool(re.search(r"if config\.quic\.is_none\(\) \{\s*bail!\(", quic_branch.split("super::startup_quic(")[0]))
    emit("ss_server_quic_branch_requires_section", "bool", "true" if needs else "false", needs,
         f + " startup_udp else-branch: `if config.quic.is_none() { bail!(..) }` before super::startup_quic")
    emit("ss_server_udp_branch", "string * string * string", "(%s, %s, %s)" % (coq_string(m.group(2)), coq_string("UdpSocket"), coq_string("startup_quic")),
         [m.group(2), "UdpSocket", "startup_quic"], f + " startup_udp: `if mode.<1>() { <2>::bind } else { <3> }`")

    # --- which function turns the configured password into the key, on each path ---
    def key_path(rel, header_re, what):
        body = _fn_body(rel, header_re, what)
        m = re.search(r"if [\w\.]+\.is_aead_2022\(\) \{\s*(?:\w+::)*(\w+)\(&\w+\.password\)[^{}]*\} else \{(.*?)\n\s*\};", body, re.S)
        if not m:
            raise AnchorMissing("%s: %s: `if kind.is_aead_2022() { f(&x.password) } else { .. }`" % (rel, what))
        m2 = re.search(r"(?:\w+::)*(\w+)\(\w+\.password\.as_bytes\(\)\)", m.group(2))
        if not m2:
            raise AnchorMissing("%s: %s: legacy branch g(x.password.as_bytes())" % (rel, what))
        return m.group(1), m2.group(1)
    rows = []
    for side, net, rel, hre in [
        ("client", "tcp", "octo-squirrel-client/src/client/shadowsocks.rs", r"fn try_from\(value: &ServerConfig<SslConfig>\)"),
        ("client", "udp", "octo-squirrel-client/src/client/shadowsocks.rs", r"pub fn new_static\("),
        ("server", "tcp", "octo-squirrel-server/src/server/shadowsocks.rs", r"pub fn init\(config: &ServerConfig<SslConfig>"),
        ("server", "udp", "octo-squirrel-server/src/server/shadowsocks.rs", r"async fn startup_udp<"),
    ]:
        a, b = key_path(rel, hre, side + " " + net + " key derivation")
        rows.append((side, net, a, b))
    emit("key_paths", "list (string * string * string * string)",
         "[ " + ";\n    ".join("(%s)" % ", ".join(coq_string(x) for x in r) for r in rows) + " ]", rows, "side, net, function for 2022 kinds, function for legacy kinds")
    # config_password_to_keys: the length test
    f = "octo-squirrel/src/protocol/shadowsocks.rs"
    body = _fn_body(f, r"pub fn config_password_to_keys<const N: usize>", "config_password_to_keys")
    m = re.search(r"for s in password\.split\('(.)'\) \{\s*if Base64::decode_vec\(s\)\?\.len\(\) (!=|<|>) N \{\s*return Err\(", body)
    if not m or "password_to_keys(password)" not in body:
        raise AnchorMissing(f + ": config_password_to_keys: `for s in password.split(':') { if Base64::decode_vec(s)?.len() != N { return Err` ")
    emit("config_keys_separator", "string", coq_string(m.group(1)), m.group(1), f)
    emit("config_keys_length_test", "string", coq_string(m.group(2)), m.group(2), f + " a key is refused when `len <this> N`")

    # --- vmess client: how the configured cipher selects the body security ---
    f = "octo-squirrel-client/src/client/vmess.rs"
    body = _fn_body(f, r"pub\(super\) fn security_type\(kind: CipherKind\)", "vmess security_type")
    arms = re.findall(r"CipherKind::(\w+) => Ok\(SecurityType::(\w+)\)", body)
    dflt = re.search(r"\n\s*_ => (\w+)!\(", body)
    if not arms or not dflt:
        raise AnchorMissing(f + ": security_type arms `CipherKind::X => Ok(SecurityType::Y)` and a `_ =>` arm")
    emit("vmess_security_arms", "list (string * string)", "[" + "; ".join("(%s, %s)" % (coq_string(a), coq_string(b)) for a, b in arms) + "]", arms, f + " security_type")
    emit("vmess_security_otherwise", "string", coq_string(dflt.group(1)), dflt.group(1), f + " security_type `_ =>` arm")
    callers = []
    if re.search(r"pub fn new_codec\(addr: &Address, \(kind, password\): \(CipherKind, String\)\)[^{]*\{\s*let security = super::security_type\(kind\)\?;", src(f)):
        callers.append("tcp")
    if re.search(r"pub fn new_codec\(addr: &Address, config: &ServerConfig<SslConfig>\)[^{]*\{\s*let security = super::security_type\(config\.cipher\)\?;", src(f)):
        callers.append("udp")
    if re.search(r"VMess => \{?\s*template::transfer_tcp\(listener, current, \|c\| vmess::security_type\(c\.cipher\)\.map\(", src("octo-squirrel-client/src/client.rs")):
        callers.append("context")
    if "tcp" not in callers or "udp" not in callers:
        raise AnchorMissing(f + ": tcp::new_codec / udp::new_codec no longer take their security from security_type(..)?")
    emit("vmess_security_callers", "list string", _strlist(callers), callers, "who calls security_type: per-flow codecs (tcp, udp) and the client context of transfer_tcp")

    header = ("(* GENERATED by tools/gen_from_source.py from /repo's working tree -- do not edit. *)\n"
              "From Coq Require Import String List.\nImport ListNotations.\nOpen Scope string_scope.\n\n")
    return header + "\n".join(L) + "\n", facts


# ------------------------------------------------------------------------------------------
SHARED_PATTERNS = [
    ("static", r"^\s*(?:pub\s+)?static\s+(?:mut\s+)?(\w+)"),
    ("mutex_new", r"Mutex::new\("),
    ("try_lock", r"\.try_lock\(\)"),
    ("lock", r"\.lock\(\)"),
    ("unsafe", r"\bunsafe\b"),
    ("cast_mut", r"cast_mut\(\)"),
    ("from_utf8_unchecked", r"from_utf8_unchecked"),
    ("from_raw_parts", r"from_raw_parts"),
    ("advance_mut", r"advance_mut"),
    ("get_unchecked", r"get_unchecked"),
    ("box_leak", r"Box::leak"),
]


def gen_shared():
    rows = []
    for crate in ["octo-squirrel", "octo-squirrel-client", "octo-squirrel-server"]:
        base = os.path.join(REPO, crate, "src")
        for root, _, files in os.walk(base):
            for fn in sorted(files):
                if not fn.endswith(".rs"):
                    continue
                rel = os.path.relpath(os.path.join(root, fn), REPO)
                in_test = False
                for i, line in enumerate(open(os.path.join(root, fn), encoding="utf-8"), 1):
                    if re.match(r"\s*#\[cfg\(test\)\]", line):
                        in_test = True
                    if in_test:
                        continue
                    code = line.split("//")[0]
                    for kind, pat in SHARED_PATTERNS:
                        if re.search(pat, code):
                            rows.append((kind, rel, code.strip()))
    rows.sort()
    # line numbers are deliberately NOT part of the inventory (harmless edits move them);
    # the inventory is the multiset of (kind, file, normalised statement)
    L = ["Definition shared_inventory : list (string * string * string) :=\n  [ %s ]." % ";\n    ".join(
        "(%s, %s, %s)" % (coq_string(k), coq_string(f), coq_string(re.sub(r"\s+", " ", c))) for k, f, c in rows)]
    header = ("(* GENERATED by tools/gen_from_source.py from /repo's working tree -- do not edit. *)\n"
              "From Coq Require Import String List.\nImport ListNotations.\nOpen Scope string_scope.\n\n")
    return header + "\n".join(L) + "\n", {"shared_inventory": rows}


# ------------------------------------------------------------------------------------------
# C15 (and C08): exit paths -- which statements run, in which order, on every way out of a flow's task.
# Every function below is cut into its top-level statements (comment-free, whitespace- and rustfmt-wrapping-
# normalised).  A statement is either
#   * recognised by an anchored template and translated into one `xstep` (a removed or moved one therefore yields a
#     different step list, and the theorems of Proofs/ExitPathFacts.v are about exactly these lists), or
#   * a recognised two-way / n-way branch (`if let`, `if`, `match` are one shape; arm order is irrelevant; a named
#     local that only carries the scrutinee is put back in place), which splits the path table, or
#   * inert -- no `?`, no .await, no break / continue / return, no loop, no spawn / select! / join!, no unwrap / expect /
#     panic-family macro, no drop / forget, no mention of a tracked object (log macros included) -- and skipped, or
#   * refused: AnchorMissing, tag [ExitPaths].
# Identifiers are matched by ROLE (bound where the source binds them, required where it uses them), not by name.
# Deliberately strict: ownership in signatures (by value / &mut), the argument data flow of every call, the inner
# shape of the first send and of the two pump definitions (what Ok / Err are mapped to), try_join! / join! / select!,
# the pattern form of the client's transport match, and everything that awaits, propagates or can panic.
# Not part of a table: log lines, the order in which the lazy adaptors / pump futures are defined and named in the
# join macro (listed in a fixed order), the order of match arms with disjoint patterns.
def _strip_comments(t):
    out, i, n = [], 0, len(t)
    while i < n:
        c = t[i]
        if c == '"':
            j = i + 1
            while j < n and t[j] != '"':
                j += 2 if t[j] == "\\" else 1
            out.append(t[i:j + 1])
            i = j + 1
        elif t.startswith("//", i):
            j = t.find("\n", i)
            i = n if j < 0 else j
        elif t.startswith("/*", i):
            j = t.find("*/", i + 2)
            i = n if j < 0 else j + 2
        else:
            out.append(c)
            i += 1
    return "".join(out)


def _norm(t):
    return re.sub(r"\s+", " ", _strip_comments(t)).strip()


def _skip_literal(t, i):
    """index just after the string / char literal that starts at i (i itself when none starts there)"""
    if t[i] == '"':
        j = i + 1
        while j < len(t) and t[j] != '"':
            j += 2 if t[j] == "\\" else 1
        return j + 1
    if t[i] == "'":
        m = re.match(r"'(\\[^']+|[^\\'])'", t[i:])
        if m:
            return i + m.end()
    return i


def _close_of(t, k, what):
    """t[k] is an opening bracket: index of the matching closing bracket"""
    depth, i = 0, k
    while i < len(t):
        j = _skip_literal(t, i)
        if j != i:
            i = j
            continue
        if t[i] in "([{":
            depth += 1
        elif t[i] in ")]}":
            depth -= 1
            if depth == 0:
                return i
        i += 1
    raise AnchorMissing("unbalanced brackets in %s" % what)


def _first_open(t, start, ch, what):
    """index of the first `ch` at bracket depth 0 at or after start"""
    depth, i = 0, start
    while i < len(t):
        j = _skip_literal(t, i)
        if j != i:
            i = j
            continue
        if t[i] == ch and depth == 0:
            return i
        if t[i] in "([{":
            depth += 1
        elif t[i] in ")]}":
            depth -= 1
        i += 1
    raise AnchorMissing("no `%s` found in %s" % (ch, what))


def _item(text, header_re, what):
    """(normalised header up to the opening brace, normalised body) of the item whose header matches header_re"""
    m = re.search(header_re, text)
    if not m:
        raise AnchorMissing("%s: header not found (%s)" % (what, header_re))
    k = _first_open(text, m.start(), "{", what)
    e = _close_of(text, k, what)
    return _norm(text[m.start():k]), _norm(text[k + 1:e])


def _stmts(body, what):
    """top-level statements of a (normalised) block body"""
    t, out, depth, start, i = body, [], 0, 0, 0
    while i < len(t):
        j = _skip_literal(t, i)
        if j != i:
            i = j
            continue
        c = t[i]
        if c in "([{":
            depth += 1
        elif c in ")]}":
            depth -= 1
            if depth < 0:
                raise AnchorMissing("unbalanced brackets in %s" % what)
            if depth == 0 and c == "}" and re.match(r"(if|match|loop|while|for|unsafe)\b|\{", t[start:].lstrip()) \
                    and not re.match(r"else\b|\.|\?|;", t[i + 1:].lstrip()):
                out.append(t[start:i + 1].strip())
                start = i + 1
        elif c == ";" and depth == 0:
            out.append(t[start:i + 1].strip())
            start = i + 1
        i += 1
    if t[start:].strip():
        out.append(t[start:].strip())
    return out


def _arms(body, what):
    """[(pattern, expression)] of a (normalised) match body"""
    t, arms, start = body, [], 0
    while t[start:].strip():
        depth, i, k = 0, start, -1
        while i < len(t):
            j = _skip_literal(t, i)
            if j != i:
                i = j
                continue
            if t[i] in "([{":
                depth += 1
            elif t[i] in ")]}":
                depth -= 1
            elif depth == 0 and t.startswith("=>", i):
                k = i
                break
            i += 1
        if k < 0:
            raise AnchorMissing("%s: text after the last match arm: %r" % (what, t[start:][:60]))
        pat = t[start:k].strip()
        p = k + 2
        while p < len(t) and t[p] == " ":
            p += 1
        if p < len(t) and t[p] == "{":
            q = _close_of(t, p, what)
            expr, nxt = t[p:q + 1], q + 1
            while nxt < len(t) and t[nxt] in " ,":
                nxt += 1
        else:
            depth, i = 0, p
            while i < len(t):
                j = _skip_literal(t, i)
                if j != i:
                    i = j
                    continue
                if t[i] in "([{":
                    depth += 1
                elif t[i] in ")]}":
                    depth -= 1
                elif t[i] == "," and depth == 0:
                    break
                i += 1
            expr, nxt = t[p:i].strip(), i + 1
        arms.append((pat, expr))
        start = nxt
    return arms


def _block_inner(expr):
    expr = expr.strip()
    return expr[1:-1].strip() if expr.startswith("{") and expr.endswith("}") else expr


# --- exit-path recogniser engine -----------------------------------------------------------
# A recogniser is a regular expression TEMPLATE over one tidied statement (or scrutinee / arm pattern):
#   (?P<role>\w+)   binds the identifier the source uses for a role (a parameter, a `let`, a pattern variable)
#   <<role>>        must be exactly the identifier bound to that role earlier (data flow, whatever it is called)
# so renaming a local is invisible, while passing a different object is not.
def _ep_tidy(t):
    """_norm + what rustfmt changes when it re-wraps a line: spaces inside brackets, trailing commas, method chains"""
    t = _norm(t)
    out, i = [], 0
    while i < len(t):
        j = _skip_literal(t, i)
        if j != i:
            out.append(t[i:j])
            i = j
            continue
        out.append(t[i])
        i += 1
    # literals are kept as opaque chunks; everything else is rewritten chunk-wise
    res = []
    code = []
    for ch in out:
        if len(ch) > 1 or ch in "\"'":
            if code:
                res.append(_ep_tidy_code("".join(code)))
                code = []
            res.append(ch)
        else:
            code.append(ch)
    if code:
        res.append(_ep_tidy_code("".join(code)))
    s = "".join(res)
    # the rewrites below can meet at a literal boundary: `( "..."` / `"...", )`
    s = re.sub(r"([(\[]) (?=\")", r"\1", s)
    s = re.sub(r"(?<=\"),? (?=[)\]])", "", s)
    return s.strip()


def _ep_tidy_code(c):
    c = re.sub(r"([(\[]) ", r"\1", c)
    c = re.sub(r",? ([)\]])", r"\1", c)
    c = re.sub(r", \}", " }", c)
    c = re.sub(r" \.(?=[A-Za-z_])", ".", c)
    c = re.sub(r" \?", "?", c)
    return c


def _ep_code_only(st):
    """the statement with string / char literals blanked"""
    out, i = [], 0
    while i < len(st):
        j = _skip_literal(st, i)
        if j != i:
            out.append('""')
            i = j
        else:
            out.append(st[i])
            i += 1
    return "".join(out)


_EP_CONTROL = re.compile(r"\?|\.await\b|\b(?:break|continue|return|loop|while|for|spawn|spawn_blocking|spawn_local|drop|forget|abort|exit)\b"
                         r"|\b(?:select|join|try_join|panic|unreachable|todo|unimplemented|bail|ensure|assert|assert_eq|assert_ne|debug_assert|debug_assert_eq|debug_assert_ne)!"
                         r"|\.(?:unwrap|expect|unwrap_err|expect_err|unwrap_unchecked)\(")
_EP_LOG_RX = re.compile(r"(?:log::)?(?:error|info|debug|warn|trace)!\(.*\)[;,]?")
_EP_LOG_BAD = re.compile(r"\?|\.await\b|\.(?:unwrap|expect)\(")


def _ep_is_log(st):
    """a log macro whose arguments neither await, nor propagate, nor unwrap (`.unwrap_err()` is tolerated here only:
    the one use in the source sits in the else-branch of `if let Ok(..) = handshake`)"""
    return bool(_EP_LOG_RX.fullmatch(st)) and not _EP_LOG_BAD.search(_ep_code_only(st))


def _ep_is_inert(st, env, resources):
    """a statement that cannot change how the function is left nor what happens to a tracked object: no `?`, no
    .await, no break / continue / return, no loop, no spawn / select! / join!, no unwrap / expect / panic-family macro,
    no drop / forget, and no mention of an identifier bound to a tracked resource"""
    code = _ep_code_only(st)
    if _EP_CONTROL.search(code):
        return False
    names = {env[r] for r in resources if r in env}
    return not any(re.search(r"\b%s\b" % re.escape(nm), code) for nm in names)


def _ep_subst(tmpl, env):
    """template -> regex (None when it uses a role that is not bound yet)"""
    missing = []

    def rep(m):
        if m.group(1) not in env:
            missing.append(m.group(1))
            return ""
        return re.escape(env[m.group(1)])
    rx = re.sub(r"<<(\w+)>>", rep, tmpl)
    return None if missing else rx


def _ep_match(tmpl, text, env):
    rx = _ep_subst(tmpl, env)
    return re.fullmatch(rx, text) if rx is not None else None


def _ep_bind(env, m):
    env.update({k: v for k, v in m.groupdict().items() if v is not None and not k.startswith("_")})


def _ep_stmts(block, what):
    """top-level statements; a named local that is only the scrutinee of the next statement is put back in place:
    `let X = E; match X {..}` / `if let P = X {..}` / `if X {..}`  ==  `match E {..}` / `if let P = E {..}` / `if E {..}`"""
    sts = _stmts(block, what)
    out, i = [], 0
    while i < len(sts):
        m = re.fullmatch(r"let (\w+) = (.+);", sts[i])
        if m and i + 1 < len(sts):
            x, e, nxt = m.group(1), m.group(2), sts[i + 1]
            for head in (r"match %s \{" % x, r"if let (?:[^={}]|=(?!=))+ = %s \{" % x, r"if %s \{" % x):
                mh = re.match(head, nxt)
                if mh:
                    k = mh.end() - 2 - len(x)
                    out.append(nxt[:k] + e + nxt[k + len(x):])
                    i += 2
                    break
            else:
                out.append(sts[i])
                i += 1
            continue
        out.append(sts[i])
        i += 1
    return out


_EP_COMPLEMENT = [(r"Ok\(.*\)", "Err(_)"), (r"Err\(.*\)", "Ok(_)"), (r"Some\(.*\)", "None"), (r"None", "Some(_)")]


def _ep_branch(st, what):
    """`if` / `if let` / `match` as (scrutinee, [(pattern, body)]); None for any other statement.
    `if let P = E {A} else {B}` is `match E { P => A, <the other variant> => B }`; `if C {A} else {B}` is
    `match C { true => A, false => B }`"""
    if st.startswith("match "):
        k = _first_open(st, 6, "{", what)
        e = _close_of(st, k, what)
        if st[e + 1:].strip() not in ("", ";", ","):
            raise AnchorMissing("%s: text after a match: %r" % (what, st[e + 1:][:60]))
        return st[6:k].strip(), [(p, _block_inner(x)) for (p, x) in _arms(st[k + 1:e], what)]
    if st.startswith("if "):
        k = _first_open(st, 3, "{", what)
        cond = st[3:k].strip()
        e = _close_of(st, k, what)
        then_b, rest = st[k + 1:e].strip(), st[e + 1:].strip()
        if rest.startswith("else"):
            rest = rest[4:].strip()
            else_b = _block_inner(rest) if rest.startswith("{") and _close_of(rest, 0, what) == len(rest) - 1 else rest
        elif rest in ("", ";"):
            else_b = ""
        else:
            raise AnchorMissing("%s: text after an if block: %r" % (what, rest[:60]))
        m = re.fullmatch(r"let (.+?) = (.+)", cond)
        if m:
            other = [c for (rx, c) in _EP_COMPLEMENT if re.fullmatch(rx, m.group(1).strip())]
            if not other:
                raise AnchorMissing("%s: `if let %s`: only Ok / Err / Some / None patterns are understood" % (what, m.group(1)))
            return m.group(2).strip(), [(m.group(1).strip(), then_b), (other[0], else_b)]
        if cond.startswith("!"):
            return cond[1:].strip(), [("false", then_b), ("true", else_b)]
        return cond, [("true", then_b), ("false", else_b)]
    return None


def _ep_paths(block, rec, env, what):
    """all control-flow paths of a block: [(outcomes, steps, returned)].
    rec = {"simple": [(template, steps | function of the match, returns)],
           "branch": [(scrutinee template, steps before the branch, [(pattern template, outcome)])],
           "resources": roles whose identifiers are tracked objects}"""
    alts = [([], [], False)]
    for st in _ep_stmts(block, what):
        sub = _ep_stmt_paths(st, rec, env, what)
        new = []
        for (o, s, r) in alts:
            if r:
                new.append((o, s, r))
            else:
                new += [(o + o2, s + s2, r2) for (o2, s2, r2) in sub]
        alts = new
    return alts


def _ep_stmt_paths(st, rec, env, what):
    hits = []
    for (tmpl, steps, ret) in rec.get("simple", []):
        m = _ep_match(tmpl, st, env)
        if m:
            hits.append((m, steps, ret))
    if len(hits) > 1:
        raise AnchorMissing("%s: statement matches several recognisers: %r" % (what, st))
    if hits:
        m, steps, ret = hits[0]
        _ep_bind(env, m)
        return [([], list(steps(m) if callable(steps) else steps), ret)]
    br = _ep_branch(st, what)
    if br:
        scrut, arms = br
        for (tmpl, before, pats) in rec.get("branch", []):
            m = _ep_match(tmpl, scrut, env)
            if not m:
                continue
            env_b = dict(env)
            _ep_bind(env_b, m)
            chosen = {}          # outcome -> (arm environment, body)
            for idx, (pat, body) in enumerate(arms):
                if re.fullmatch(r"_|[a-z_]\w*", pat) and idx == len(arms) - 1 and pat not in ("true", "false"):
                    for (_ptmpl, oc) in pats:      # a final catch-all arm stands for every variant not named before it
                        chosen.setdefault(oc, (dict(env_b), body))
                    continue
                got = [(oc, pm) for (ptmpl, oc) in pats for pm in [_ep_match(ptmpl, pat, env_b)] if pm]
                if len(got) != 1 or got[0][0] in chosen:
                    raise AnchorMissing("%s: unrecognised arm pattern %r of `match %s`" % (what, pat, scrut))
                env_a = dict(env_b)
                _ep_bind(env_a, got[0][1])
                chosen[got[0][0]] = (env_a, body)
            out = []
            for (_ptmpl, oc) in pats:              # rows in the recogniser's order, whatever the order of the arms
                if oc not in chosen:
                    raise AnchorMissing("%s: `match %s` has no arm for %s" % (what, scrut, oc))
                env_a, body = chosen[oc]
                out += [([oc] + o, list(before) + s, r) for (o, s, r) in _ep_paths(body, rec, env_a, what)]
            return out
    if re.fullmatch(r"\(\)[;,]?", st) or _ep_is_log(st) or _ep_is_inert(st, env, rec.get("resources", ())):
        return [([], [], False)]
    raise AnchorMissing("%s: unrecognised statement %r" % (what, st[:200]))


def _ep_flat(block, simple, env, resources, what):
    """a block without recognised branches: one step list"""
    ps = _ep_paths(block, {"simple": simple, "resources": resources}, env, what)
    if len(ps) != 1 or ps[0][0]:
        raise AnchorMissing("%s: expected straight-line code" % what)
    return ps[0][1]


def _ep_header(hdr, tmpl, what):
    m = re.search(tmpl, hdr)
    if not m:
        raise AnchorMissing("%s: signature %r is not of the expected form (%s)" % (what, hdr[:160], tmpl))
    env = {}
    _ep_bind(env, m)
    return env


def _ep_item(text, header_re, what):
    hdr, body = _item(text, header_re, what)
    return _ep_tidy(hdr), _ep_tidy(body)


def _spawn_block(body, opener, what):
    i = body.find(opener)
    if i < 0 or body.find(opener, i + 1) >= 0:
        raise AnchorMissing("%s: expected exactly one `%s`" % (what, opener))
    k = i + len(opener) - 1
    e = _close_of(body, k, what)
    if not body[e + 1:].lstrip().startswith(")"):
        raise AnchorMissing("%s: `%s ... }` is not the whole argument of the spawn" % (what, opener))
    return body[k + 1:e].strip()


def _ep_canon_pumps(steps, what):
    """the adaptors and the two pump futures are lazy: the order in which they are DEFINED (and in which the join
    macro names them) cannot be observed; the table lists them in one fixed order between FirstSend and JoinPumps"""
    lazy = [s for s in steps if s.startswith(("FilterErrors ", "DefinePump "))]
    if not lazy:
        return steps
    idx = [i for i, s in enumerate(steps) if s in lazy]
    if idx != list(range(idx[0], idx[0] + len(idx))):
        raise AnchorMissing("%s: pump definitions are interleaved with other steps" % what)
    key = lambda s: (0 if s.startswith("FilterErrors") else 1, s.split()[1])
    return steps[:idx[0]] + sorted(lazy, key=key) + steps[idx[-1] + 1:]


def gen_exit_paths():
    L, facts = [], {}

    def coq_list(xs):
        return "[" + "; ".join(xs) + "]"

    def emit_steps(name, steps, origin):
        facts[name] = steps
        L.append("Definition %s : list xstep := %s.  (* %s *)" % (name, coq_list(steps), origin))

    def emit_paths(name, paths, origin):
        rows = [(o, s) for (o, s, _r) in paths]
        facts[name] = rows
        L.append("Definition %s : list (list outcome * list xstep) :=  (* %s *)\n  [ %s ]." % (
            name, origin, ";\n    ".join("(%s, %s)" % (coq_list(o), coq_list(s)) for o, s in rows)))

    def emit_bool(name, v, origin):
        facts[name] = v
        L.append("Definition %s : bool := %s.  (* %s *)" % (name, "true" if v else "false", origin))

    def pump(specs):
        """recognisers of `let NAME = async { match STREAM.forward(SINK).await { Ok(_) => X, Err(e) => Y } };`"""
        out = []
        for (stream_t, sink_t, d, role) in specs:
            for ok_err in (True, False):
                for err_err in (True, False):
                    okx = r"Err(?:::<\(\), _>)?\(relay::Result::Close\([^;{}]*\)\)" if ok_err else r"Ok\([^;{}]*\)"
                    erx = r"Err\(relay::Result::Err\([^;{}]*\)\)" if err_err else r"Ok\([^;{}]*\)"
                    out.append((r"let (?P<%s>\w+) = async \{ match %s\.forward\(%s\)\.await \{ Ok\(_\) => %s, Err\(\w+\) => %s \} \};" % (role, stream_t, sink_t, okx, erx),
                                ["DefinePump %s %s %s" % (d, "true" if ok_err else "false", "true" if err_err else "false")], False))
        return out

    def join():
        both = r"(?:<<pAB>>, <<pBA>>|<<pBA>>, <<pAB>>)"
        return [(r"(?:let (?P<res>\w+) = )?match tokio::try_join!\(%s\) \{ Ok\(_\) => unreachable!\([^;{}]*\), Err\((?P<_e>\w+)\) => (?P=_e) \};?" % both, ["JoinPumps TryJoin"], False),
                (r"(?:let (?P<res>\w+) = )?match tokio::join!\(%s\) \{.*\};?" % both, ["JoinPumps Join"], False),
                (r"(?:let (?P<res>\w+) = )?tokio::join!\(%s\);?" % both, ["JoinPumps Join"], False),
                (r"(?:let (?P<res>\w+) = )?tokio::select! \{.*\};?", ["JoinPumps Select"], False)]

    # ---------------- octo-squirrel/src/codec.rs: QuicStream ----------------
    f = "octo-squirrel/src/codec.rs"
    s = src(f)
    _, impl_body = _ep_item(s, r"\nimpl QuicStream \{", f + ": impl QuicStream")
    hdr, body = _ep_item(impl_body, r"pub async fn close\(", f + ": QuicStream::close")
    m = re.fullmatch(r"pub async fn close\((mut self|self|&mut self|&self)\) -> (?:anyhow::)?Result<\(\)>", hdr)
    if not m:
        raise AnchorMissing(f + ": signature of QuicStream::close: %r" % hdr)
    emit_bool("quic_close_consumes_self", m.group(1) in ("mut self", "self"), f + " close(%s): the stream is dropped when close returns" % m.group(1))
    self_env = {"self": "self"}
    emit_steps("quic_close_steps", _ep_flat(body, [
        (r"(?:let _ = )?self\.send\.finish\(\)(?:\.ok\(\))?;", ["Finish"], False),
        (r"match self\.send\.stopped\(\)\.await \{ Ok\(_\) => Ok\(\(\)\), Err\((?P<_e>\w+)\) => (?:bail!\((?P=_e)\)|Err\([^;{}]*\)) \}", ["AwaitStopped"], True),
        (r"(?:let _ = )?self\.send\.stopped\(\)\.await(?:\.ok\(\)|\?|\.map_err\([^;{}]*\)\?)?;", ["AwaitStopped"], False),
        (r"Ok\(\(\)\)", ["ReturnOk"], True),
    ], dict(self_env), ["self"], f + ": QuicStream::close"), f + " QuicStream::close")
    _, impl_body = _ep_item(s, r"\nimpl AsyncWrite for QuicStream \{", f + ": impl AsyncWrite for QuicStream")
    _, body = _ep_item(impl_body, r"fn poll_shutdown\(", f + ": QuicStream::poll_shutdown")
    emit_steps("quic_poll_shutdown_steps", _ep_flat(body, [
        (r"AsyncWrite::poll_shutdown\(Pin::new\(&mut self\.send\), \w+\)", ["ShutdownSend"], False),
        (r"Pin::new\(&mut self\.send\)\.poll_shutdown\(\w+\)", ["ShutdownSend"], False),
        (r"Poll::Ready\(Ok\(\(\)\)\)", [], False),
    ], dict(self_env), ["self"], f + ": QuicStream::poll_shutdown"), f + " poll_shutdown (quinn SendStream::poll_shutdown = finish)")

    # ---------------- octo-squirrel-server/src/server/template.rs ----------------
    f = "octo-squirrel-server/src/server/template.rs"
    s = src(f)
    split_framed = (r"let \(mut (?P<sink>\w+), mut (?P<stream>\w+)\) = <<codec>>\.framed\(<<inbound>>\)\.split\(\);", ["SplitFramed"], False)
    call_relay_to = (r"relay_to\(&mut <<sink>>, &mut <<stream>>\)\.await;?", ["CallRelayTo"], False)
    conn_res = ["inbound", "sink", "stream", "ws", "whole"]
    _, mod_tcp = _ep_item(s, r"pub\(super\) mod tcp \{", f + ": mod tcp")
    hdr, body = _ep_item(mod_tcp, r"pub async fn relay<", f + ": tcp::relay")
    env = _ep_header(hdr, r"\((?P<inbound>\w+): I, (?P<codec>\w+): C\)", f + ": tcp::relay must take the connection by value (it is dropped when relay returns)")
    emit_steps("server_tcp_relay_steps", _ep_flat(body, [split_framed, call_relay_to], env, conn_res, f + ": tcp::relay"), f + " tcp::relay (owns `inbound`)")
    hdr, body = _ep_item(mod_tcp, r"pub async fn accept_websocket_then_replay<", f + ": tcp::accept_websocket_then_replay")
    env = _ep_header(hdr, r"\((?P<inbound>\w+): I, (?P<codec>\w+): C\)", f + ": accept_websocket_then_replay must take the connection by value")
    emit_paths("server_ws_accept_paths", _ep_paths(body, {
        "simple": [(r"let \(mut (?P<sink>\w+), mut (?P<stream>\w+)\) = WebSocketFramed::new\(<<ws>>, <<codec>>\)\.split\(\);", ["SplitWsFramed"], False),
                   call_relay_to],
        "branch": [(r"ServerBuilder::new\(\)\.accept\(<<inbound>>\)\.await", [],
                    [(r"Ok\(\(_, (?P<ws>\w+)\)\)", "WsAcceptOk"), (r"Err\(\w+\)", "WsAcceptErr")])],
        "resources": conn_res}, env, f + ": accept_websocket_then_replay"), f + " tcp::accept_websocket_then_replay (owns `inbound`)")
    _, mod_quic = _ep_item(s, r"pub\(super\) mod quic \{", f + ": mod quic")
    hdr, body = _ep_item(mod_quic, r"pub async fn relay<", f + ": quic::relay")
    env = _ep_header(hdr, r"\((?P<inbound>\w+): QuicStream, (?P<codec>\w+): C\) -> anyhow::Result<\(\)>",
                     f + ": quic::relay must take the QuicStream by value and return anyhow::Result<()>")
    emit_steps("server_quic_relay_steps", _ep_flat(body, [
        split_framed, call_relay_to,
        (r"let (?P<whole>\w+) = <<sink>>\.reunite\(<<stream>>\)\.map\(Framed::into_inner\)\.map_err\(\|(?P<_e>\w+)\| anyhow!\((?P=_e)\)\)\?;", ["Reunite"], False),
        (r"<<whole>>\.close\(\)\.await", ["CloseStream"], True),
        (r"(?:let _ = )?<<whole>>\.close\(\)\.await(?:\?|\.ok\(\))?;", ["CloseStream"], False),
        (r"return [^;]*;", ["ReturnEarly"], True),
        (r"Ok\(\(\)\)", ["ReturnOk"], True),
    ], env, conn_res, f + ": quic::relay"), f + " quic::relay (owns `inbound`; `?` on reunite cannot fail: the halves are a pair)")

    hdr, body = _ep_item(s, r"\nasync fn relay_to<", f + ": relay_to")
    env = _ep_header(hdr, r"\((?P<sink>\w+): &mut Si, (?P<stream>\w+): &mut St\)", f + ": relay_to borrows the two inbound halves")
    first_pats = [(r"Some\(Ok\(InboundIn::ConnectTcp\((?P<msg>\w+), (?P<addr>\w+)\)\)\)", "FirstIs ConnectTcp"),
                  (r"Some\(Ok\(InboundIn::RelayUdp\((?P<msg>\w+), (?P<addr>\w+)\)\)\)", "FirstIs RelayUdp"),
                  (r"Some\(Ok\(InboundIn::RelayTcp\(\w+\)\)\)", "FirstIs RelayTcp"),
                  (r"Some\(Err\(\w+\)\)", "FirstIs DecodeErr"),
                  (r"None", "FirstIs Eof")]
    paths = _ep_paths(body, {
        "simple": [(r"(?:let \w+ = )?relay_tcp_bidirectional\(<<sink>>, <<stream>>, <<outbound>>, InboundIn::RelayTcp\(<<msg>>\)\)\.await;?", ["RelayTcpBidi"], False),
                   (r"(?:let \w+ = )?relay_udp_bidirectional\(<<sink>>, <<stream>>, <<outbound>>, InboundIn::RelayUdp\(<<msg>>, <<addr>>\)\)\.await;?", ["RelayUdpBidi"], False),
                   (r"return;?,?", ["ReturnEarly"], True)],
        "branch": [(r"<<stream>>\.next\(\)\.await", [], first_pats),
                   (r"<<addr>>\.to_socket_addr\(\)", [], [(r"Ok\((?P<resolved>\w+)\)", "ResolveOk"), (r"Err\(\w+\)", "ResolveErr")]),
                   (r"TcpStream::connect\(<<resolved>>\)\.await", [], [(r"Err\(\w+\)", "ConnectErr"), (r"Ok\((?P<outbound>\w+)\)", "ConnectOk")]),
                   (r"UdpSocket::bind\([^;{}]*\)\.await", [], [(r"Err\(\w+\)", "BindErr"), (r"Ok\((?P<outbound>\w+)\)", "BindOk")])],
        "resources": ["sink", "stream", "outbound"]}, env, f + ": relay_to")
    if not all(o and o[0].startswith("FirstIs ") for (o, _s, _r) in paths):
        raise AnchorMissing(f + ": relay_to must start with `match <inbound stream>.next().await`")
    emit_paths("server_relay_to_paths", paths, f + " relay_to: one row per control-flow path")

    for nm, fn, sig, split_t in [
            ("tcp", "relay_tcp_bidirectional", r"\((?P<sink>\w+): &mut Si, (?P<stream>\w+): &mut St, (?P<outbound>\w+): TcpStream, (?P<first>\w+): InboundIn\) -> relay::Result",
             r"let \((?P<osink>\w+), (?P<ostream>\w+)\) = BytesCodec\.framed\(<<outbound>>\)\.split\(\);"),
            ("udp", "relay_udp_bidirectional", r"\((?P<sink>\w+): Si, (?P<stream>\w+): St, (?P<outbound>\w+): UdpSocket, (?P<first>\w+): InboundIn\) -> relay::Result",
             r"let \((?P<osink>\w+), (?P<ostream>\w+)\) = UdpFramed::new\(<<outbound>>, DatagramCodec::default\(\)\)\.split\(\);")]:
        hdr, body = _ep_item(s, r"\nasync fn %s<" % fn, f + ": " + fn)
        env = _ep_header(hdr, sig, f + ": %s must take the outbound socket by value (it is dropped when the relay returns)" % fn)
        emit_steps("server_relay_%s_bidi_steps" % nm, _ep_flat(body, [
            (split_t, ["SplitOutbound"], False),
            (r"relay_bidirectional\(<<sink>>, <<stream>>, <<osink>>, <<ostream>>, <<first>>\)\.await", ["CallRelayBidi"], True),
        ], env, ["sink", "stream", "outbound", "osink", "ostream"], f + ": " + fn), f + " " + fn + " (owns `outbound`, borrows the inbound halves)")

    hdr, body = _ep_item(s, r"\nasync fn relay_bidirectional<", f + ": relay_bidirectional")
    env = _ep_header(hdr, r"\((?P<isink>\w+): ISink, (?P<istream>\w+): IStream, mut (?P<osink>\w+): OSink, (?P<ostream>\w+): OStream, (?P<first>\w+): InboundIn\) -> relay::Result",
                     f + ": relay_bidirectional")
    emit_steps("server_bidi_steps", _ep_canon_pumps(_ep_flat(body, [
        (r"match <<first>>\.try_into\(\) \{ Ok\((?P<_f>\w+)\) => match <<osink>>\.send\((?P=_f)\)\.await \{ Ok\(_\) => \(\), Err\(\w+\) => return relay::Result::Err\([^;{}]*\) \}, "
         r"Err\(\w+\) => return relay::Result::Err\([^;{}]*\) \};", ["FirstSend"], False),
        (r"let (?P<ostream>\w+) = <<ostream>>\.filter_map\(\|(?P<_r>\w+)\| future::ready\((?P=_r)\.ok\(\)\)\)\.map\(O::into\)\.map\(Ok\);", ["FilterErrors PumpBA"], False),
        (r"let (?P<istream>\w+) = <<istream>>\.filter_map\(\|(?P<_r>\w+)\| future::ready\((?P=_r)\.ok\(\)\)\)\.map\(InboundIn::try_into\);", ["FilterErrors PumpAB"], False),
    ] + pump([("<<ostream>>", "<<isink>>", "PumpBA", "pBA"), ("<<istream>>", "<<osink>>", "PumpAB", "pAB")]) + join(),
        env, ["isink", "istream", "osink", "ostream", "first", "pAB", "pBA"], f + ": relay_bidirectional"), f + ": relay_bidirectional"), f + " relay_bidirectional")

    # ---------------- octo-squirrel-server/src/server.rs: the per-connection tasks ----------------
    f = "octo-squirrel-server/src/server.rs"
    s = src(f)
    _, body = _ep_item(s, r"\nasync fn startup_tcp<", f + ": startup_tcp")
    fn_step = {"accept_websocket_then_replay": "CallAcceptWs", "relay": "CallTcpRelay"}
    m = re.search(r"\(None, (?P<ws>\w+)\) => loop \{.*?if (?P=ws)\.is_some\(\) \{ tokio::spawn\(template::tcp::(?P<a>\w+)\((?P<i>\w+), (?P<c>\w+)\)\); \} else \{ tokio::spawn\(template::tcp::(?P<b>\w+)\((?P=i), (?P=c)\)\); \}", body)
    if not m or m.group("a") not in fn_step or m.group("b") not in fn_step:
        raise AnchorMissing(f + ": startup_tcp plain arm: `(None, ws) => loop { .. if ws.is_some() { tokio::spawn(template::tcp::X(inbound, codec)); } else { .. } }`")
    emit_paths("server_plain_task_paths", [(["UseWs"], [fn_step[m.group("a")]], False), (["NoWs"], [fn_step[m.group("b")]], False)], f + " startup_tcp (None, ws) arm: the spawned future IS the call")
    m = re.search(r"\(Some\(\w+\), (?P<ws>\w+)\) => \{.*?let (?P<usews>\w+) = (?P=ws)\.is_some\(\);", body)
    if not m:
        raise AnchorMissing(f + ": startup_tcp tls arm: `(Some(ssl), ws) => { .. let use_ws = ws.is_some();`")
    emit_paths("server_tls_task_paths", _ep_paths(_spawn_block(body, "tokio::spawn(async move {", f + ": startup_tcp tls task"), {
        "simple": [(r"template::tcp::accept_websocket_then_replay\(<<tls>>, <<codec>>\)\.await;?", ["CallAcceptWs"], False),
                   (r"template::tcp::relay\(<<tls>>, <<codec>>\)\.await;?", ["CallTcpRelay"], False)],
        "branch": [(r"<<usews>>", [], [(r"true", "UseWs"), (r"false", "NoWs")]),
                   (r"\w+\.accept\((?P<inbound>\w+)\)\.await", [], [(r"Ok\((?P<tls>\w+)\)", "TlsAcceptOk"), (r"Err\(\w+\)", "TlsAcceptErr")])],
        "resources": ["inbound", "tls"]}, {"usews": m.group("usews"), "codec": "codec"},
        f + ": startup_tcp tls task"), f + " startup_tcp (Some(ssl), ws) arm: the spawned block")
    _, body = _ep_item(s, r"\nasync fn startup_quic<", f + ": startup_quic")
    m = re.search(r"while let Some\((?P<incoming>\w+)\) = \w+\.accept\(\)\.await \{", body)
    if not m:
        raise AnchorMissing(f + ": startup_quic: `while let Some(incoming) = endpoint.accept().await {`")
    emit_steps("server_quic_task_steps", _ep_flat(_spawn_block(body, "tokio::spawn(async {", f + ": startup_quic task"), [
        (r"let (?P<conn>\w+) = <<incoming>>\.await\?;", ["AwaitIncoming"], False),
        (r"let \((?P<send>\w+), (?P<recv>\w+)\) = <<conn>>\.accept_bi\(\)\.await\?;", ["AcceptBi"], False),
        (r"template::quic::relay\(QuicStream::new\(<<send>>, <<recv>>\), \w+\)\.await\?;", ["CallQuicRelay"], False),
        (r"Ok::<\(\), anyhow::Error>\(\(\)\)", ["ReturnOk"], True),
    ], {"incoming": m.group("incoming")}, ["incoming", "conn", "send", "recv"], f + ": startup_quic task"),
        f + " startup_quic: the spawned block (holds `connection` until it ends)")

    # ---------------- octo-squirrel-client/src/client/template.rs ----------------
    f = "octo-squirrel-client/src/client/template.rs"
    s = src(f)
    _, body = _ep_item(s, r"\npub async fn transfer_tcp<", f + ": transfer_tcp")
    emit_paths("client_task_paths", _ep_paths(_spawn_block(body, "tokio::spawn(async move {", f + ": transfer_tcp task"), {
        "branch": [(r"handshake::get_request_addr\(&mut (?P<inbound>\w+)\)\.await", ["Handshake"],
                    [(r"Ok\((?P<peer>\w+)\)", "HandshakeOk"), (r"Err\(\w+\)", "HandshakeErr")]),
                   (r"try_transfer_tcp\(<<inbound>>, &<<peer>>, &\w+, \w+, \w+\)\.await", ["CallTryTransfer"],
                    [(r"Ok\(\w+\)", "TransferOk"), (r"Err\(\w+\)", "TransferErr")])],
        "resources": ["inbound"]}, {},
        f + ": transfer_tcp task"), f + " transfer_tcp: the spawned block (owns `inbound`, moves it into try_transfer_tcp)")
    hdr, body = _ep_item(s, r"\npub async fn try_transfer_tcp<", f + ": try_transfer_tcp")
    env = _ep_header(hdr, r"\((?P<inbound>\w+): TcpStream, (?P<peer>\w+): &Address, (?P<config>\w+): &ServerConfig<SslConfig>, (?P<context>\w+): Context, (?P<newcodec>\w+): NewCodec\)",
                     f + ": try_transfer_tcp must take the local socket by value")
    tt_res = ["inbound", "local", "tunnel", "back", "cs"]
    st = _ep_stmts(body, f + ": try_transfer_tcp")
    rx = _ep_subst(r"Ok\(match \(&<<config>>\.ssl, &<<config>>\.ws, &<<config>>\.quic\) \{(.*)\}\)", env)
    m = re.fullmatch(rx, st[-1]) if st else None
    if not m:
        raise AnchorMissing(f + ": try_transfer_tcp must end with `Ok(match (&config.ssl, &config.ws, &config.quic) { .. })`")
    emit_steps("client_try_transfer_steps", _ep_flat(" ".join(st[:-1]), [
        (r"let (?P<local>\w+) = Framed::new\(<<inbound>>, BytesCodec\);", ["FrameLocal"], False),
        (r"let (?P<codec>\w+) = <<newcodec>>\(<<peer>>, <<context>>\)\?;", ["NewCodec"], False),
    ], env, tt_res, f + ": try_transfer_tcp"), f + " try_transfer_tcp: before the transport match")
    tunnel = {"plain": "Tcp", "tls": "Tls", "ws": "Ws", "wss": "Wss", "quic": "Quic"}
    close_call = r"(?P=cs)\.into_inner\(\)\.close\(\)"
    arm_rec = [(r"let (?P<tunnel>\w+) = new_%s_outbound\(&<<config>>\.host, <<config>>\.port, <<codec>>(?:, \w+)*\)\.await\?;" % k, ["OpenTunnel " + v], False) for k, v in tunnel.items()] + [
        (r"relay_tcp\(<<local>>, <<tunnel>>\)\.await", ["CallRelayTcp"], True),
        (r"let \((?P<res>\w+), (?P<back>\w+)\) = relay_tcp_then\(<<local>>, <<tunnel>>\)\.await;", ["CallRelayTcpThen"], False),
        (r"if let Some\((?P<cs>\w+)\) = <<back>> \{ let _ = time::timeout\(Duration::from_secs\((?P<_secs>\d+)\), %s\)\.await; \}" % close_call,
         lambda mm: ["CloseReunited (Some %s)" % mm.group("_secs")], False),
        (r"if let Some\((?P<cs>\w+)\) = <<back>> \{ (?:let _ = )?%s\.await(?:\?|\.ok\(\))?; \}" % close_call, ["CloseReunited None"], False),
        (r"<<res>>", ["YieldResult"], True)]
    rows = []
    for (pat, expr) in _arms(m.group(1), f + ": try_transfer_tcp"):
        pm = re.fullmatch(r"\((None|_|Some\(\w+\)), (None|_|Some\(\w+\)), (None|_|Some\(\w+\))\)", pat)
        if not pm:
            raise AnchorMissing(f + ": try_transfer_tcp arm pattern %r" % pat)
        rows.append(("(%s)" % ", ".join({"None": "PNone", "_": "PAny"}.get(g, "PSome") for g in pm.groups()),
                     _ep_flat(_block_inner(expr), arm_rec, dict(env), tt_res, f + ": try_transfer_tcp arm " + pat)))
    facts["client_transport_arms"] = rows
    L.append("Definition client_transport_arms : list ((opat * opat * opat) * list xstep) :=  (* %s try_transfer_tcp: (ssl, ws, quic) arms, first match wins *)\n  [ %s ]." % (
        f, ";\n    ".join("(%s, %s)" % (p, coq_list(st_)) for p, st_ in rows)))
    hdr, body = _ep_item(s, r"\nasync fn relay_tcp<", f + ": relay_tcp")
    env = _ep_header(hdr, r"\((?P<local>\w+): I, (?P<tunnel>\w+): O\) -> relay::Result", f + ": relay_tcp owns both ends")
    emit_steps("client_relay_tcp_steps", _ep_flat(body, [
        (r"relay_tcp_then\(<<local>>, <<tunnel>>\)\.await\.0", ["CallRelayTcpThen", "DiscardReunited"], True),
    ], env, ["local", "tunnel"], f + ": relay_tcp"), f + " relay_tcp: `.0` drops the handed-back outbound")
    hdr, body = _ep_item(s, r"\nasync fn relay_tcp_then<", f + ": relay_tcp_then")
    env = _ep_header(hdr, r"\((?P<local>\w+): I, (?P<tunnel>\w+): O\) -> \(relay::Result, Option<O>\)", f + ": signature of relay_tcp_then")
    emit_steps("client_relay_tcp_then_steps", _ep_canon_pumps(_ep_flat(body, [
        (r"let \((?P<cl>\w+), (?P<lc>\w+)\) = <<local>>\.split\(\);", ["SplitLocal"], False),
        (r"let \(mut (?P<cs>\w+), mut (?P<sc>\w+)\) = <<tunnel>>\.split\(\);", ["SplitTunnel"], False),
        (r"if let Err\(\w+\) = <<cs>>\.send\(BytesMut::new\(\)\)\.await \{ return \(relay::Result::Err\([^;{}]*\), None\); \}", ["FirstSend"], False),
        (r"\(<<res>>, <<cs>>\.reunite\(<<sc>>\)\.ok\(\)\)", ["ReturnReunited"], True),
    ] + pump([(r"<<lc>>", r"&mut <<cs>>", "PumpAB", "pAB"), (r"\(&mut <<sc>>\)", r"<<cl>>", "PumpBA", "pBA")]) + join(),
        env, ["local", "tunnel", "cl", "lc", "cs", "sc", "pAB", "pBA"], f + ": relay_tcp_then"), f + ": relay_tcp_then"),
        f + " relay_tcp_then (the local halves are moved into the pumps, the tunnel halves are borrowed)")

    header = ("(* GENERATED by tools/gen_from_source.py from /repo's working tree -- do not edit.\n"
              "   Exit paths: the statements of the per-flow functions, in source order, as abstract steps.\n"
              "   The vocabulary below is fixed text of the translator; the tables after it are extracted. *)\n"
              "From Coq Require Import List.\nImport ListNotations.\n\n" + _EXIT_VOCAB + "\n")
    return header + "\n".join(L) + "\n", facts


_EXIT_VOCAB = """Inductive transport := Tcp | Tls | Ws | Wss | Quic.
Inductive first_item := ConnectTcp | RelayUdp | RelayTcp | DecodeErr | Eof.   (* what inbound_stream.next() yields first *)
Inductive pdir := PumpAB | PumpBA.   (* AB: inbound (server) / local (client) stream -> outbound / tunnel sink;  BA: the reverse *)
Inductive join_kind := TryJoin | Join | Select.
Inductive opat := PNone | PSome | PAny.
(* the branch taken at a recognised `if let` / `match` *)
Inductive outcome :=
| FirstIs (k : first_item) | ResolveOk | ResolveErr | ConnectOk | ConnectErr | BindOk | BindErr
| WsAcceptOk | WsAcceptErr | TlsAcceptOk | TlsAcceptErr | UseWs | NoWs
| HandshakeOk | HandshakeErr | TransferOk | TransferErr.
(* one recognised statement (named xstep: Model/Relay.v already has a `step`) *)
Inductive xstep :=
| Log | ReturnEarly | ReturnOk
| Finish | AwaitStopped | ShutdownSend
| SplitFramed | SplitWsFramed | CallRelayTo | Reunite | CloseStream
| RelayTcpBidi | RelayUdpBidi | SplitOutbound | CallRelayBidi
| FirstSend | FilterErrors (d : pdir) | DefinePump (d : pdir) (ok_to_err err_to_err : bool) | JoinPumps (k : join_kind)
| AwaitIncoming | AcceptBi | CallQuicRelay | CallTcpRelay | CallAcceptWs
| Handshake | CallTryTransfer | FrameLocal | NewCodec | OpenTunnel (t : transport)
| CallRelayTcp | CallRelayTcpThen | CloseReunited (timeout_secs : option nat) | YieldResult | DiscardReunited
| SplitLocal | SplitTunnel | ReturnReunited.
"""


# ------------------------------------------------------------------------------------------
# C08: loop shapes -- which failure ENDS which long-lived service loop.
# The body of every service loop is cut into statements and walked structurally.
#   * A FALLIBLE POINT is a call recognised by the METHOD / FUNCTION name that carries its meaning (`.accept()`, `.recv_from(..)`,
#     `.send(..)`, `.try_send(..)`, `.send_to(..)`, `SessionCodec::decode(..)`, `new_binding(..)`, the closure parameter of type
#     NewCodec / NewOut, ...), whatever the receiver and the locals are called.  Its DISPOSITION is read off the syntax around it:
#       E?                                      Propagate ByQuestion        `while let Ok(..) = E {`   Propagate ByLoopCond
#       match E { .. Err(e) => { ..; break } }  Propagate ByBreak           .. => { ..; return .. }    Propagate ByReturn
#       match E { .. Err(e) => { ..; continue } } Handled SkipIteration     .. => log                  Handled FallThrough
#       E.unwrap_or_else(f)                     Handled FallThrough         E.ok() / .is_ok() / .err() Handled Converted
#       PAT = E  (refutable select! pattern)    Parked                      inside spawn(..)           InTask
#     `if let Ok(..) = E {A} else {B}`, `let Ok(..) = E else {B}` and `match E {Ok(..) => A, Err(..) => B}` are the same shape;
#     a named local for the value of a point (`let r = E.await; match r {..}`, a select! binding, the item of a `while let`) is
#     followed to where it is examined.
#   * A statement with no `?`, no `.await`, no break / continue / return, no spawn / select!, no unwrap / expect / panic-family
#     macro / process exit and no loop is INERT: whatever it calls and however its locals are named it can neither end nor block
#     the loop, and it is skipped (functions of the same file that it calls must not panic / exit either).  `sleep(<any>).await`
#     is a pause.  `if` / `match` on something that is not a point must have an inert condition and is walked through.
#   * Everything else raises (tag [LoopShapes]).  As a safety net the number of `?` and of break / continue / return in the walked
#     text must equal the number the walker consumed.
_LS_VOCAB = """(* how a failure leaves the loop *)
Inductive exit_kind := ByQuestion | ByReturn | ByBreak | ByLoopCond | ByPanic.
(* how the loop's own task deals with it and goes on: `continue`, falls through after logging, turned into a value *)
Inductive keep_kind := SkipIteration | FallThrough | Converted.
Inductive disposition :=
| Propagate (k : exit_kind)   (* the failure ends the loop: the service is gone *)
| Handled (k : keep_kind)     (* dealt with on the loop's own task; the loop goes on *)
| Parked                      (* refutable tokio::select! pattern: the branch is disabled until another branch completes *)
| InTask.                     (* inside tokio::spawn: the failure can at most end the spawned task *)
(* the fallible points, by role *)
Inductive point :=
| PTick
| PAccept | PNewCodec | PTlsHandshake | PWsThenRelay | PRelay
| PEndpointAccept | PQuicHandshake | PQuicAcceptBi | PQuicRelay
| PRecvChannel | PEncodeReply | PSendReply | PRecvClient | PDecodeClient | PAssocSend | PAssocCreate | PAssocSendNew
| PPeerRecv | PPacketIdNext | PReplyChannelSend | PClientChannelRecv | PResolve | PReplayCheck | PSendPeer
| PLocalHandshake | PTryTransfer
| PRecvReplyChannel | PSendLocalReply | PRecvLocal
| PNewOutVacant | PNewBindingVacant | PNewOutRetry | PNewBindingRetry | PSendOutbound
| PFirstSend | PServerRecv | PServerDecode | PLocalChannelSend.
"""
_LS_POINTS = set(re.findall(r"\bP([A-Z]\w+)", _LS_VOCAB.split("Inductive point :=")[1]))

_LS_SUFFIXES = [
    (r"\?", "Propagate ByQuestion"),
    (r"\.unwrap\(\)|\.expect\(.*\)", "Propagate ByPanic"),
    (r"\.unwrap_or_else\((?P<closure>.*)\)", "Handled FallThrough"),      # the closure (or the function named) must be inert
    (r"(?:\.map_err\((?P<closure2>.*)\))?\.ok\(\)|\.is_ok\(\)|\.is_err\(\)|\.err\(\)(?:\.map\(.*\))?|\.unwrap_or_default\(\)", "Handled Converted"),
    (r"", "Handled Converted"),
]
_LS_TERMINALS = [(r"continue;?", "continue"), (r"break;?", "break"), (r"return\b.*", "return"), (r"bail!\(.*\);?", "return"),
                 (r"(?:panic|unreachable|todo|unimplemented)!\(.*\);?", "panic")]
_LS_FAIL_DISP = {None: "Handled FallThrough", "continue": "Handled SkipIteration", "break": "Propagate ByBreak",
                 "return": "Propagate ByReturn", "panic": "Propagate ByPanic"}
# what makes a statement able to end, leave or block the loop it is in (searched in the text without its literals)
_LS_NOT_INERT = re.compile(r"\?|\.await\b|\b(?:break|continue|return|loop|while|for)\b|\bspawn\b|\bselect!|\.unwrap\(\)|\.expect\("
                           r"|\b(?:panic|unreachable|todo|unimplemented|bail|ensure)!|\b\w*assert\w*!|(?:process::|(?<![\.\w]))(?:exit|abort)\(")
# what makes a (same-file, non-async-awaited) helper able to take the caller's task down
_LS_DIVERGES = re.compile(r"\b(?:panic|unreachable|todo|unimplemented)!|\b\w*assert\w*!|(?:process::|(?<![\.\w]))(?:exit|abort)\(|\.unwrap\(\)|\.expect\(")
_LS_SLEEP = r"(?:\w+::)*sleep\(.*\)\.await;?"        # a back-off pause on the loop's own task, however the duration is written
_LS_SPAWN = r"(?:let (?:mut )?\w+ = )?(?:[\w\.]+\.|(?:\w+::)*)spawn\("
_LS_SELECT = r"(?:\w+::)*select! \{"


# ---- private copies of the text helpers (gen_exit_paths has its own; the two translators evolve independently) ----
def _ls_strip_comments(t):
    out, i, n_ = [], 0, len(t)
    while i < n_:
        c = t[i]
        if c == '"':
            j = i + 1
            while j < n_ and t[j] != '"':
                j += 2 if t[j] == "\\" else 1
            out.append(t[i:j + 1])
            i = j + 1
        elif t.startswith("//", i):
            j = t.find("\n", i)
            i = n_ if j < 0 else j
        elif t.startswith("/*", i):
            j = t.find("*/", i + 2)
            i = n_ if j < 0 else j + 2
        else:
            out.append(c)
            i += 1
    return "".join(out)


def _ls_norm(t):
    """comment-free, whitespace-normalised; a method chain broken over several lines is one chain; `f( a, b, )` is `f(a, b)`"""
    t = re.sub(r"\s+", " ", _ls_strip_comments(t)).strip()
    t = re.sub(r" \.(?=[A-Za-z_])", ".", t)
    out, i = [], 0
    while i < len(t):                       # rustfmt's wrapping of argument lists, outside literals
        j = _ls_skip_literal(t, i)
        if j != i:
            out.append(t[i:j])
            i = j
            continue
        if t[i] == "(" and t.startswith("( ", i):
            out.append("(")
            i += 2
            continue
        if t.startswith(", )", i):
            out.append(")")
            i += 3
            continue
        if t.startswith(" )", i) and out and out[-1] != "(":
            out.append(")")
            i += 2
            continue
        out.append(t[i])
        i += 1
    return "".join(out)


def _ls_skip_literal(t, i):
    if t[i] == '"':
        j = i + 1
        while j < len(t) and t[j] != '"':
            j += 2 if t[j] == "\\" else 1
        return j + 1
    if t[i] == "'":
        m = re.match(r"'(\\[^']+|[^\\'])'", t[i:])
        if m:
            return i + m.end()
    return i


def _ls_no_literals(t):
    out, i = [], 0
    while i < len(t):
        j = _ls_skip_literal(t, i)
        if j != i:
            out.append('""')
            i = j
            continue
        out.append(t[i])
        i += 1
    return "".join(out)


def _ls_close_of(t, k, what):
    depth, i = 0, k
    while i < len(t):
        j = _ls_skip_literal(t, i)
        if j != i:
            i = j
            continue
        if t[i] in "([{":
            depth += 1
        elif t[i] in ")]}":
            depth -= 1
            if depth == 0:
                return i
        i += 1
    raise AnchorMissing("unbalanced brackets in %s" % what)


def _ls_first_open(t, start, ch, what):
    depth, i = 0, start
    while i < len(t):
        j = _ls_skip_literal(t, i)
        if j != i:
            i = j
            continue
        if t[i] == ch and depth == 0:
            return i
        if t[i] in "([{":
            depth += 1
        elif t[i] in ")]}":
            depth -= 1
        i += 1
    raise AnchorMissing("no `%s` found in %s" % (ch, what))


def _ls_item(text, header_re, what):
    m = re.search(header_re, text)
    if not m:
        raise AnchorMissing("%s: header not found (%s)" % (what, header_re))
    k = _ls_first_open(text, m.start(), "{", what)
    e = _ls_close_of(text, k, what)
    return _ls_norm(text[m.start():k]), _ls_norm(text[k + 1:e])


def _ls_stmts(body, what):
    t, out, depth, start, i = body, [], 0, 0, 0
    while i < len(t):
        j = _ls_skip_literal(t, i)
        if j != i:
            i = j
            continue
        c = t[i]
        if c in "([{":
            depth += 1
        elif c in ")]}":
            depth -= 1
            if depth < 0:
                raise AnchorMissing("unbalanced brackets in %s" % what)
            if depth == 0 and c == "}" and re.match(r"(if|match|loop|while|for|unsafe)\b|\{|%s" % _LS_SELECT, t[start:].lstrip()) \
                    and not re.match(r"else\b|\.|\?|;", t[i + 1:].lstrip()):
                out.append(t[start:i + 1].strip())
                start = i + 1
        elif c == ";" and depth == 0:
            out.append(t[start:i + 1].strip())
            start = i + 1
        i += 1
    if t[start:].strip():
        out.append(t[start:].strip())
    return out


def _ls_arms(body, what):
    t, arms, start = body, [], 0
    while t[start:].strip():
        depth, i, k = 0, start, -1
        while i < len(t):
            j = _ls_skip_literal(t, i)
            if j != i:
                i = j
                continue
            if t[i] in "([{":
                depth += 1
            elif t[i] in ")]}":
                depth -= 1
            elif depth == 0 and t.startswith("=>", i):
                k = i
                break
            i += 1
        if k < 0:
            raise AnchorMissing("%s: text after the last match arm: %r" % (what, t[start:][:60]))
        pat = t[start:k].strip()
        p = k + 2
        while p < len(t) and t[p] == " ":
            p += 1
        if p < len(t) and t[p] == "{":
            q = _ls_close_of(t, p, what)
            expr, nxt = t[p:q + 1], q + 1
            while nxt < len(t) and t[nxt] in " ,":
                nxt += 1
        else:
            depth, i = 0, p
            while i < len(t):
                j = _ls_skip_literal(t, i)
                if j != i:
                    i = j
                    continue
                if t[i] in "([{":
                    depth += 1
                elif t[i] in ")]}":
                    depth -= 1
                elif t[i] == "," and depth == 0:
                    break
                i += 1
            expr, nxt = t[p:i].strip(), i + 1
        arms.append((pat, expr))
        start = nxt
    return arms


def _ls_block_inner(expr):
    expr = expr.strip()
    return expr[1:-1].strip() if expr.startswith("{") and expr.endswith("}") and _ls_close_of(expr, 0, "a block") == len(expr) - 1 else expr


def _ls_braced(st, start, what):
    """(text before the first top-level `{` at/after start, inside of that block, text after it)"""
    k = _ls_first_open(st, start, "{", what)
    e = _ls_close_of(st, k, what)
    return st[start:k].strip(), st[k + 1:e].strip(), st[e + 1:].strip()


def _ls_inert(st):
    """no `?`, no await, no control transfer, no spawn / select!, no panicking call, no loop: whatever this statement calls
    and however its locals are named, it can neither end nor block the loop it is in"""
    return not _LS_NOT_INERT.search(_ls_no_literals(st))


def _ls_file_fns(text):
    """{name: body} of every `fn` with a body in a source file (free functions and methods alike)"""
    t, fns = _ls_strip_comments(text), {}
    for m in re.finditer(r"\bfn (\w+)", t):
        try:
            k = _ls_first_open(t, m.end(), "{", "fn " + m.group(1))
        except AnchorMissing:
            continue
        semi = t.find(";", m.end())
        if 0 <= semi < k and t[m.end():semi].count("(") == t[m.end():semi].count(")") and "{" not in t[m.end():semi]:
            continue                        # a declaration without a body
        fns.setdefault(m.group(1), []).append(t[k:_ls_close_of(t, k, "fn " + m.group(1)) + 1])
    return fns


def _ls_calls_diverging(st, fns, seen=frozenset()):
    """does the statement call a function of the same file that can panic / exit (followed through such helpers)?"""
    for name in set(re.findall(r"\b([a-z_]\w*)\(", _ls_no_literals(st))) - seen:
        for body in fns.get(name, []):
            if _LS_DIVERGES.search(_ls_no_literals(body)) or _ls_calls_diverging(body, fns, seen | {name}):
                return True
    return False


def _ls_loops_in(block, what):
    """every loop statement reachable from a block through if / match / plain blocks (not through closures or spawned
    blocks): [(header text, body text)]"""
    found = []
    for st in _ls_stmts(block, what):
        s = re.sub(r"^(?:let [^=]+ = |[\w\.]+ = )", "", st)
        if re.match(r"(?:loop|while)\b", s):
            head, body, rest = _ls_braced(s, 0, what)
            if rest not in ("", ",", ";"):
                raise AnchorMissing("%s: text after a loop: %r" % (what, rest[:60]))
            found.append((head, body))
        elif s.startswith("match "):
            _h, body, _r = _ls_braced(s, 6, what)
            for (_pat, ex) in _ls_arms(body, what):
                found += _ls_loops_in(_ls_block_inner(ex), what)
        elif s.startswith("if "):
            while s.startswith("if "):
                _c, then_b, rest = _ls_braced(s, 3, what)
                found += _ls_loops_in(then_b, what)
                rest = rest.rstrip(";").strip()
                s = rest[4:].strip() if rest.startswith("else") else ""
            if s.startswith("{"):
                found += _ls_loops_in(_ls_block_inner(s), what)
        elif s.startswith("{"):
            found += _ls_loops_in(_ls_block_inner(s.rstrip(";")), what)
    return found


def _ls_the_loop(block, what):
    found = _ls_loops_in(block, what)
    if len(found) != 1:
        raise AnchorMissing("%s: expected exactly one `loop` / `while` statement, found %d" % (what, len(found)))
    return found[0]


def _ls_P(key, name, args=r".*", awaited=True, branch=None):
    """a fallible point, keyed on the METHOD (key starts with `\\.`: any receiver) or FUNCTION PATH that carries the meaning;
    args: regex the argument text must match; awaited: the point is `call(..).await`; branch: only inside that select! branch"""
    return {"key": key, "name": name, "args": args, "awaited": awaited, "branch": branch, "method": key.startswith(r"\.")}


def _ls_point_matches(p, expr, what):
    m = re.match((r"[\w\.]+" if p["method"] else "") + p["key"] + r"\(", expr)
    if not m:
        return False
    k = m.end() - 1
    e = _ls_close_of(expr, k, what)
    return expr[e + 1:] == (".await" if p["awaited"] else "") and re.fullmatch(p["args"], expr[k + 1:e]) is not None


class _LoopWalk:
    """rec = {points: [_ls_P], arm_ctx: [(regex searched in an arm pattern, suffix)], cond_ctx: [(regex searched in a condition,
              then suffix, else suffix)], check_if: [(regex searched in a condition, Name)], calls: [(function path regex, Name)],
              select: [(future regex, Name)], arm_suffix: {Name: suffix}, header_item: [(template with {item}, Name)],
              loops: bool, task: rec of spawned blocks}"""

    def __init__(self, what, rec, aliases=None):
        self.what, self.rec = what, rec
        self.points = list(rec.get("points", []))
        self.fns = rec.get("fns", {})           # the functions of the same source file (an inert statement may call them)
        self.aliases = dict(aliases or {})      # expression text -> {"base", "used", "kind"}: values that stand for a point
        self.branch = None                      # the select! branch being walked
        self.nq = self.nctl = 0
        self.tasks = []            # rows of every spawned block, with the dispositions relative to that task
        self.select = None         # [(Name, refutable)]
        self.select_else = "absent"

    def fail(self, msg):
        raise AnchorMissing("%s: %s" % (self.what, msg))

    def name(self, base, sfx):
        nm = base + sfx
        if nm not in _LS_POINTS:
            self.fail("no point is called %s (role %s in a context with suffix %r)" % (nm, base, sfx))
        return nm

    def point(self, expr, sfx):
        expr = expr.strip()
        while expr.startswith("(") and _ls_close_of(expr, 0, self.what) == len(expr) - 1:
            expr = expr[1:-1].strip()
        if expr in self.aliases:
            self.aliases[expr]["used"] = True
            return (self.aliases[expr]["base"], self.name(self.aliases[expr]["base"], sfx))
        hits = sorted(set(p["name"] for p in self.points
                          if p["branch"] in (None, self.branch) and _ls_point_matches(p, expr, self.what)))
        if len(hits) > 1:
            self.fail("expression matches several point recognisers %r: %r" % (hits, expr))
        return (hits[0], self.name(hits[0], sfx)) if hits else None

    def has_point(self, st):
        flat = _ls_no_literals(st)
        return any(re.search(p["key"] + r"\(", flat) for p in self.points if p["branch"] in (None, self.branch))

    def examines_alias(self, st):
        """an `if` / `match` on a local that stands for a fallible point is that point's handling, even when nothing in it can
        leave the loop"""
        m = re.match(r"(?:let [^=]+ = |[\w\.]+ = )?(?:match (?P<a>[a-z_]\w*) \{|if let [^=]+ = (?P<b>[a-z_]\w*) \{|if (?P<c>[a-z_]\w*)\.is_(?:ok|err)\(\) \{)", st)
        return bool(m) and (m.group("a") or m.group("b") or m.group("c")) in self.aliases

    def plain(self, text, where):
        """a scrutinee / condition that is not a fallible point must be inert"""
        if self.has_point(text) or not _ls_inert(text):
            self.fail("unrecognised %s %r" % (where, text[:120]))

    # ---- blocks ----
    def block(self, text, sfx):
        rows, term, before = [], None, set(self.aliases)
        for st in _ls_stmts(text, self.what):
            if term:
                self.fail("statement after a control transfer: %r" % st[:100])
            r, term = self.stmt(st, sfx)
            rows += r
        for a in [a_ for a_ in self.aliases if a_ not in before]:      # locals of this block go out of scope
            if self.aliases[a]["kind"] == "let" and not self.aliases[a]["used"]:
                rows.append((self.name(self.aliases[a]["base"], self.aliases[a]["sfx"]), "Handled Converted"))
            del self.aliases[a]
        return rows, term

    def fail_arm(self, expr, sfx):
        rows, term = self.block(_ls_block_inner(expr), sfx)
        if rows:
            self.fail("a failure arm contains fallible points itself: %r" % (rows,))
        if term is None and not _ls_block_inner(expr).strip(" ;,()"):
            return "Handled Converted"          # an empty arm: the error is dropped like `.ok()` / `let _ =` drop it
        return _LS_FAIL_DISP[term]

    def quiet(self, text, sfx, where):
        """a block that may skip the iteration but must not leave the loop by itself"""
        rows, term = self.block(text, sfx)
        if term not in (None, "continue"):
            self.fail("%s leaves the loop (%s) without a recognised fallible point" % (where, term))
        return rows

    # ---- statements ----
    def stmt(self, st, sfx):
        for (rx, kind) in _LS_TERMINALS:
            if re.fullmatch(rx, st):
                if kind in ("continue", "break") or st.startswith("return"):
                    self.nctl += 1
                return [], kind
        if re.fullmatch(_LS_SLEEP, st) and _ls_inert(re.sub(r"\.await;?$", "", st)):
            return [], None
        if _ls_inert(st) and not self.has_point(st) and not self.examines_alias(st):
            if _ls_calls_diverging(st, self.fns):
                self.fail("a statement calls a function of this file that can panic or exit: %r" % st[:120])
            return [], None
        if re.match(_LS_SPAWN, st):
            return self.stmt_spawn(st, sfx)
        if re.match(_LS_SELECT, st):
            return self.stmt_select(st, sfx)
        if re.match(r"(?:let [^=]+ = |[\w\.]+ = )?match ", st):
            return self.stmt_match(st, sfx)
        if st.startswith("if "):
            return self.stmt_if(st, sfx)
        if re.match(r"(?:loop|while)\b", st):
            if not self.rec.get("loops"):
                self.fail("a nested loop on the loop's own task: %r" % st[:100])
            head, body, rest = _ls_braced(st, 0, self.what)
            if rest not in ("", ";"):
                self.fail("text after a nested loop: %r" % rest[:60])
            before = set(self.aliases)
            rows = self.header(head, sfx)
            r, _t = self.block(body, sfx)
            for a in [a_ for a_ in self.aliases if a_ not in before]:
                del self.aliases[a]
            return rows + r, None
        r = self.stmt_let_else(st, sfx)
        if r is None:
            r = self.stmt_expr(st, sfx)
        if r is not None:
            return r, None
        self.fail("unrecognised statement %r" % st[:160])

    def header(self, head, sfx):
        if head == "loop":
            return []
        m = re.fullmatch(r"while let (?:Ok|Some)\((.*)\) = (.+)", head)
        p = self.point(m.group(2), sfx) if m else None
        if not p:
            self.fail("unrecognised loop header %r" % head[:120])
        if re.fullmatch(r"(?:mut )?[a-z_]\w*", m.group(1)):
            item = m.group(1).split()[-1]
            for (tmpl, base) in self.rec.get("header_item", []):
                self.aliases[tmpl.replace("{item}", item)] = {"base": base, "used": True, "kind": "header", "sfx": sfx}
        return [(p[1], "Propagate ByLoopCond")]

    def stmt_let_else(self, st, sfx):
        core = re.sub(r"[;,]$", "", st).strip()
        if not core.startswith("let ") or not core.endswith("}"):
            return None
        try:
            k = _ls_first_open(core, 0, "{", self.what)
        except AnchorMissing:
            return None
        m = re.fullmatch(r"let (?:Ok|Some)\(.*\) = (.+) else", core[:k].strip())
        if not m or _ls_close_of(core, k, self.what) != len(core) - 1:
            return None
        p = self.point(m.group(1), sfx)
        if not p:
            return None
        return [(p[1], self.fail_arm(core[k:], sfx))]

    def stmt_expr(self, st, sfx):
        core = re.sub(r"[;,]$", "", st).strip()
        m = re.fullmatch(r"let (?:mut )?([a-z]\w*|_\w+)(?:: [^=]+)? = (.+)", core)
        if m and self.point(m.group(2), sfx):
            # a named local for the value of a fallible point: what happens to the point is what happens to the local
            base = self.point(m.group(2), sfx)[0]
            self.aliases[m.group(1)] = {"base": base, "used": False, "kind": "let", "sfx": sfx}
            return []
        core = re.sub(r"^(?:let [^=]+ = |[\w\.]+ = )", "", core)
        for (srx, disp) in _LS_SUFFIXES:
            mm = re.fullmatch(r"(?P<e>.+?)(?:%s)" % srx, core)
            if not mm:
                continue
            if any(v is not None and not _ls_inert(v) for (k_, v) in mm.groupdict().items() if k_.startswith("closure")):
                continue
            p = self.point(mm.group("e"), sfx)
            if p:
                if disp == "Propagate ByQuestion":
                    self.nq += 1
                return [(p[1], disp)]
        return None

    def stmt_spawn(self, st, sfx):
        m = re.fullmatch(_LS_SPAWN + r"(.*)\);?", st)
        if not m:
            self.fail("unrecognised spawn statement %r" % st[:120])
        inner = m.group(1).strip()
        ma = re.match(r"async (?:move )?\{", inner)
        if ma:
            k = ma.end() - 1
            if _ls_close_of(inner, k, self.what) != len(inner) - 1:
                self.fail("the async block is not the whole argument of spawn")
            sub = _LoopWalk(self.what + " (spawned block)", dict(self.rec.get("task", {}), fns=self.fns), self.aliases)
            rows, _t = sub.block(inner[k + 1:-1].strip(), "")
            self.nq += sub.nq
            self.nctl += sub.nctl
            self.tasks.append(rows)
            self.tasks += sub.tasks
            return [(nm, "InTask") for (nm, _d) in rows], None
        # spawn(f(args)): the ARGUMENTS are evaluated here, on the loop's own task
        rows = []
        for p in self.points:
            while True:
                hit = None
                for mm in re.finditer((r"[\w\.]+" if p["method"] else r"(?<![\w\.:])") + p["key"] + r"\(", inner):
                    e = _ls_close_of(inner, mm.end() - 1, self.what)
                    tail = ".await?" if p["awaited"] else "?"
                    if inner.startswith(tail, e + 1) and self.point(inner[mm.start():e + 1 + len(tail) - 1], sfx):
                        hit = (mm.start(), e + 1 + len(tail))
                        break
                if not hit:
                    break
                rows.append((self.name(p["name"], sfx), "Propagate ByQuestion"))
                self.nq += 1
                inner = inner[:hit[0]] + "ARG" + inner[hit[1]:]
        hits = []
        for (rx, nm) in self.rec.get("calls", []):
            mm = re.match(rx + r"\(", inner)
            if mm and _ls_close_of(inner, mm.end() - 1, self.what) == len(inner) - 1:
                hits.append(nm)
        if len(hits) != 1 or not _ls_inert(inner):
            self.fail("unrecognised spawned call %r" % inner[:120])
        self.tasks.append([(self.name(hits[0], ""), "Handled Converted")])
        return rows + [(self.name(hits[0], ""), "InTask")], None

    def ctx_suffix(self, table, text, width):
        for row in self.rec.get(table, []):
            if re.search(row[0], text):
                return row[1:]
        return ("",) * width

    def stmt_match(self, st, sfx):
        m = re.match(r"(?:let [^=]+ = |[\w\.]+ = )?match ", st)
        scrut, body, rest = _ls_braced(st, m.end(), self.what)
        if rest not in ("", ";", ","):
            self.fail("text after a match: %r" % rest[:60])
        arms = _ls_arms(body, self.what)
        p = self.point(scrut, sfx)
        if p:
            bad = [(pat, ex) for (pat, ex) in arms if re.fullmatch(r"Err\(.*\)|None|_", pat)]
            good = [(pat, ex) for (pat, ex) in arms if re.fullmatch(r"(?:Ok|Some)\(.*\)", pat)]
            if len(bad) != 1 or len(bad) + len(good) != len(arms):
                self.fail("arms of `match %s` are not (Ok|Some)(..)* and one Err(..)|None: %r" % (scrut, [a for a, _ in arms]))
            rows = [(p[1], self.fail_arm(bad[0][1], sfx))]
            s2 = sfx + self.rec.get("arm_suffix", {}).get(p[0], "")
            for (pat, ex) in good:
                rows += self.quiet(_ls_block_inner(ex), s2, "a success arm of `match %s`" % scrut)
            return rows, None
        self.plain(scrut, "match scrutinee")
        rows = []
        for (pat, ex) in arms:
            self.plain(pat, "arm pattern")
            rows += self.quiet(_ls_block_inner(ex), sfx + self.ctx_suffix("arm_ctx", pat, 1)[0], "an arm of `match %s`" % scrut)
        return rows, None

    def stmt_if(self, st, sfx):
        cond, then_b, rest = _ls_braced(st, 3, self.what)
        rest = rest.rstrip(";").strip()
        if rest == "":
            else_b = None
        elif rest.startswith("else"):
            r = rest[4:].strip()
            if r.startswith("{") and _ls_close_of(r, 0, self.what) == len(r) - 1:
                else_b = r[1:-1].strip()
            elif r.startswith("if "):
                else_b = r
            else:
                self.fail("text after an if block: %r" % rest[:60])
        else:
            self.fail("text after an if block: %r" % rest[:60])
        go = lambda b, s, w: self.quiet(b, s, w) if b is not None else []
        m = re.fullmatch(r"let Err\(.*\) = (.+)", cond)
        p = self.point(m.group(1), sfx) if m else None
        if p:
            return [(p[1], self.fail_arm(then_b, sfx))] + go(else_b, sfx, "the else of `if %s`" % cond), None
        m = re.fullmatch(r"let (?:Ok|Some)\(.*\) = (.+)", cond)
        p = self.point(m.group(1), sfx) if m else None
        if p:
            disp = self.fail_arm(else_b, sfx) if else_b is not None else "Handled Converted"
            s2 = sfx + self.rec.get("arm_suffix", {}).get(p[0], "")
            return [(p[1], disp)] + go(then_b, s2, "the success block of `if %s`" % cond), None
        m = re.fullmatch(r"(.+)\.is_ok\(\)", cond)
        p = self.point(m.group(1), sfx) if m else None
        if p:
            s2 = sfx + self.rec.get("arm_suffix", {}).get(p[0], "")
            disp = self.fail_arm(else_b, sfx) if else_b is not None else "Handled Converted"
            return [(p[1], disp)] + go(then_b, s2, "the success block of `if %s`" % cond), None
        m = re.fullmatch(r"(.+)\.is_err\(\)", cond)
        p = self.point(m.group(1), sfx) if m else None
        if p:
            return [(p[1], self.fail_arm(then_b, sfx))] + go(else_b, sfx, "else"), None
        for (rx, base) in self.rec.get("check_if", []):
            if re.search(rx, cond) and _ls_inert(cond):
                return [(self.name(base, sfx), self.fail_arm(then_b, sfx))] + go(else_b, sfx, "else"), None
        self.plain(cond, "condition")
        s_then, s_else = self.ctx_suffix("cond_ctx", cond, 2)
        return go(then_b, sfx + s_then, "the then-block of `if %s`" % cond) + go(else_b, sfx + s_else, "the else-block of `if %s`" % cond), None

    def stmt_select(self, st, sfx):
        if self.select is not None:
            self.fail("more than one select!")
        _h, body, rest = _ls_braced(st, 0, self.what)
        if rest not in ("", ";"):
            self.fail("text after select!: %r" % rest[:60])
        rows, sel = [], []
        for (head, expr) in _ls_arms(body, self.what):
            if head == "else":
                r, term = self.block(_ls_block_inner(expr), sfx)
                if r or term not in ("break", "return", "panic"):
                    self.fail("unrecognised `else` branch of select!: %r" % expr[:80])
                self.select_else = {"break": "Some ByBreak", "return": "Some ByReturn", "panic": "Some ByPanic"}[term]
                continue
            k = _ls_first_open(head, 0, "=", self.what)
            pat, fut = head[:k].strip(), head[k + 1:].strip()
            nm = [n_ for (rx, n_) in self.rec.get("select", []) if re.fullmatch(rx, fut)]
            if len(nm) != 1:
                self.fail("unrecognised select! future %r" % fut[:100])
            nm = nm[0]
            alias = None
            if re.fullmatch(r"_|[a-z_]\w*", pat):
                refutable = False
                if pat != "_":
                    alias = pat
                    self.aliases[alias] = {"base": nm, "used": False, "kind": "select", "sfx": sfx}
            elif re.fullmatch(r"(?:Some|Ok)\(.*\)", pat):
                refutable = True
                rows.append((self.name(nm, sfx), "Parked"))
            else:
                self.fail("unrecognised select! pattern %r" % pat[:80])
            sel.append((self.name(nm, sfx), refutable))
            self.branch = nm
            r = self.quiet(_ls_block_inner(expr), sfx, "the select! branch of %s" % fut)
            self.branch = None
            if alias is not None:
                if not self.aliases[alias]["used"]:
                    self.fail("the value `%s` of the select! branch %s is never examined" % (alias, fut))
                del self.aliases[alias]
            rows += r
        if self.select_else == "absent":
            self.select_else = "None"
        self.select = sel
        return rows, None

    # ---- entry ----
    def check_counts(self, text):
        flat = _ls_no_literals(text)
        nq, nctl = flat.count("?"), len(re.findall(r"\b(?:break|continue|return)\b", flat))
        if nq != self.nq or nctl != self.nctl:
            self.fail("the text has %d `?` and %d break/continue/return, the recognisers account for %d and %d" % (nq, nctl, self.nq, self.nctl))

    def loop(self, head, body):
        rows = self.header(head, "")
        r, _t = self.block(body, "")
        self.check_counts(head + " { " + body + " }")
        return rows + r


def gen_loop_shapes():
    L, facts = [], {}

    def emit_rows(name, rows, origin):
        facts[name] = rows
        L.append("Definition %s : list (point * disposition) :=  (* %s *)\n  [ %s ]." % (
            name, origin, ";\n    ".join("(P%s, %s)" % (p, d) for (p, d) in rows)))

    def emit_select(name, w, origin):
        facts[name + "_select"] = w.select
        facts[name + "_select_else"] = w.select_else
        L.append("Definition %s_select : list (point * bool) := [%s].  (* %s tokio::select! branches: (source, the pattern is refutable) *)" % (
            name, "; ".join("(P%s, %s)" % (p, "true" if r else "false") for (p, r) in (w.select or [])), origin))
        L.append("Definition %s_select_else : option exit_kind := %s.  (* %s `else =>` branch (None: there is none, tokio::select! panics when every branch is disabled) *)" % (
            name, "None" if w.select is None else w.select_else, origin))

    def emit_bool(name, v, origin):
        facts[name] = v
        L.append("Definition %s : bool := %s.  (* %s *)" % (name, "true" if v else "false", origin))

    def walk(what, rec, head, body):
        w = _LoopWalk(what, dict(rec, fns=fns))
        return w, w.loop(head, body)

    def param(hdr, ty, what):
        """the name of the parameter whose type is the generic parameter `ty` (the closure that is called in the loop)"""
        m = re.search(r"\b(\w+): %s\b" % ty, hdr)
        if not m:
            raise AnchorMissing("%s: no parameter of type %s" % (what, ty))
        return re.escape(m.group(1))

    P = _ls_P
    ONE = r"[^,()]+"
    # ---------------- server: octo-squirrel-server/src/server.rs ----------------
    f = "octo-squirrel-server/src/server.rs"
    s = src(f)
    fns = _ls_file_fns(s)
    hdr, body = _ls_item(s, r"\nasync fn startup_tcp<", f + ": startup_tcp")
    tcp_task = {"points": [P(r"\.accept", "TlsHandshake", args=ONE),           # TlsAcceptor::accept(stream); TcpListener::accept() takes none
                           P(r"template::tcp::accept_websocket_then_replay", "WsThenRelay"), P(r"template::tcp::relay", "Relay")]}
    tcp_rec = {"points": [P(r"\.accept", "Accept", args=r""), P(param(hdr, "NewCodec", f + ": startup_tcp"), "NewCodec", awaited=False)] + tcp_task["points"],
               "calls": [(r"template::tcp::accept_websocket_then_replay", "WsThenRelay"), (r"template::tcp::relay", "Relay")],
               "task": tcp_task}
    st = [st_ for st_ in _ls_stmts(body, f + ": startup_tcp") if re.match(r"match \(&\w+\.ssl, &\w+\.ws\) \{", st_)]
    if len(st) != 1:
        raise AnchorMissing(f + ": startup_tcp: expected one `match (&config.ssl, &config.ws) {`")
    _h, mbody, _r = _ls_braced(st[0], 0, f + ": startup_tcp")
    arms = _ls_arms(mbody, f + ": startup_tcp")
    if len(arms) != 2 or not re.fullmatch(r"\(None, \w+\)", arms[0][0]) or not re.fullmatch(r"\(Some\(\w+\), \w+\)", arms[1][0]):
        raise AnchorMissing(f + ": startup_tcp must have exactly the arms (None, ws) and (Some(ssl_config), ws); found %r" % [a for a, _ in arms])
    for nm, (_pat, expr), tag in [("server_tcp_plain", arms[0], "(None, ws)"), ("server_tcp_tls", arms[1], "(Some(ssl), ws)")]:
        head, lbody = _ls_the_loop(_ls_block_inner(expr), f + ": startup_tcp %s arm" % tag)
        w, rows = walk(f + ": startup_tcp %s arm" % tag, tcp_rec, head, lbody)
        emit_rows(nm + "_points", rows, f + " startup_tcp %s arm: the accept loop" % tag)
        emit_rows(nm + "_task_points", [r_ for t_ in w.tasks for r_ in t_], f + " startup_tcp %s arm: inside the spawned task(s), relative to the task" % tag)

    hdr, body = _ls_item(s, r"\nasync fn startup_quic<", f + ": startup_quic")
    quic_task = {"points": [P(r"\.accept_bi", "QuicAcceptBi", args=r""), P(r"template::quic::relay", "QuicRelay")]}
    quic_rec = {"points": [P(r"\.accept", "EndpointAccept", args=r""), P(param(hdr, "NewCodec", f + ": startup_quic"), "NewCodec", awaited=False)] + quic_task["points"],
                "header_item": [("{item}.await", "QuicHandshake")],     # awaiting the `Incoming` the loop header yields IS the handshake
                "task": quic_task}
    head, lbody = _ls_the_loop(body, f + ": startup_quic")
    w, rows = walk(f + ": startup_quic", quic_rec, head, lbody)
    emit_rows("server_quic_points", rows, f + " startup_quic: the accept loop")
    emit_rows("server_quic_task_points", [r_ for t_ in w.tasks for r_ in t_], f + " startup_quic: inside the spawned task, relative to the task")

    # ---------------- server: octo-squirrel-server/src/server/shadowsocks.rs ----------------
    f = "octo-squirrel-server/src/server/shadowsocks.rs"
    s = src(f)
    fns = _ls_file_fns(s)
    SEL = [(r"[\w\.]+\.tick\(\)", "Tick")]
    udp_rec = {
        "select": SEL + [(r"[\w\.]+\.recv\(\)", "RecvChannel"), (r"[\w\.]+\.recv_from\(.*\)", "RecvClient")],
        "points": [P(r"SessionCodec(?:::<\w+>)?::encode", "EncodeReply", awaited=False), P(r"\.send_to", "SendReply"),
                   P(r"SessionCodec(?:::<\w+>)?::decode", "DecodeClient", awaited=False), P(r"\.try_send", "AssocSend"),
                   P(r"\w+::create", "AssocCreate")],
        "arm_suffix": {"AssocCreate": "New"}}
    _, body = _ls_item(s, r"\nasync fn startup_udp<", f + ": startup_udp")
    head, lbody = _ls_the_loop(body, f + ": startup_udp")
    w, rows = walk(f + ": startup_udp", udp_rec, head, lbody)
    emit_rows("server_udp_points", rows, f + " startup_udp: the datagram loop")
    emit_select("server_udp", w, f + " startup_udp")

    _, impl_body = _ls_item(s, r"\nimpl<const N: usize> UdpAssociateContext<N> \{", f + ": impl UdpAssociateContext")
    _, cbody = _ls_item(impl_body, r"async fn create\(", f + ": UdpAssociateContext::create")
    spawned = bool(re.search(r"(?:\w+::)*spawn\(async move \{ \w+\.relay\(\w+\)\.await;? \}\)", cbody))
    emit_bool("server_assoc_relay_spawned", spawned, f + " UdpAssociateContext::create: `let task = tokio::spawn(async move { assoc.relay(receiver).await });`")
    assoc_rec = {
        "select": [(r"[\w\.]+\.recv_from\(.*\)", "PeerRecv"), (r"[\w\.]+\.recv\(\)", "ClientChannelRecv")],
        "points": [P(r"\.checked_add", "PacketIdNext", awaited=False), P(r"\.send", "ReplyChannelSend"),
                   P(r"\.to_socket_addr", "Resolve", args=r"", awaited=False), P(r"\.send_to", "SendPeer")],
        "check_if": [(r"^!\s*[\w\.]+\.validate_packet_id\(", "ReplayCheck")]}
    _, body = _ls_item(impl_body, r"async fn relay\(", f + ": UdpAssociateContext::relay")
    head, lbody = _ls_the_loop(body, f + ": UdpAssociateContext::relay")
    w, rows = walk(f + ": UdpAssociateContext::relay", assoc_rec, head, lbody)
    emit_rows("server_assoc_points", rows, f + " UdpAssociateContext::relay: the loop of one association's task (dispositions relative to THAT loop)")
    emit_select("server_assoc", w, f + " UdpAssociateContext::relay")

    # ---------------- client: octo-squirrel-client/src/client/template.rs ----------------
    f = "octo-squirrel-client/src/client/template.rs"
    s = src(f)
    fns = _ls_file_fns(s)
    ctcp_rec = {"points": [P(r"\.accept", "Accept", args=r"")],
                "task": {"points": [P(r"handshake::get_request_addr", "LocalHandshake"), P(r"try_transfer_tcp", "TryTransfer")]}}
    _, body = _ls_item(s, r"\npub async fn transfer_tcp<", f + ": transfer_tcp")
    head, lbody = _ls_the_loop(body, f + ": transfer_tcp")
    w, rows = walk(f + ": transfer_tcp", ctcp_rec, head, lbody)
    emit_rows("client_tcp_points", rows, f + " transfer_tcp: the accept loop")
    emit_rows("client_tcp_task_points", [r_ for t_ in w.tasks for r_ in t_], f + " transfer_tcp: inside the spawned task, relative to the task")

    reply_task = {"points": [P(r"\.next", "ServerRecv", args=r""), P(r"\.send", "LocalChannelSend")],
                  "header_item": [("{item}", "ServerDecode")],          # the item the reply stream yields is the decode result
                  "loops": True}
    hdr, body = _ls_item(s, r"\npub async fn transfer_udp<", f + ": transfer_udp")
    cudp_rec = {
        "select": SEL + [(r"[\w\.]+\.recv\(\)", "RecvReplyChannel"), (r"[\w\.]+\.next\(\)", "RecvLocal")],
        "points": [P(r"\.send", "SendLocalReply", branch="RecvReplyChannel"), P(r"\.send", "SendOutbound", branch="RecvLocal"),
                   P(param(hdr, "NewOut", f + ": transfer_udp"), "NewOut"), P(r"new_binding", "NewBinding")],
        "arm_ctx": [(r"\bEntry::Vacant\b", "Vacant"), (r"\bEntry::Occupied\b", "")],
        "cond_ctx": [(r"\.is_finished\(\)$", "Retry", "")]}
    head, lbody = _ls_the_loop(body, f + ": transfer_udp")
    w, rows = walk(f + ": transfer_udp", cudp_rec, head, lbody)
    emit_rows("client_udp_points", rows, f + " transfer_udp: the datagram loop")
    emit_select("client_udp", w, f + " transfer_udp")

    bind_rec = {"points": [P(r"\.send", "FirstSend")], "task": reply_task}
    _, body = _ls_item(s, r"\nasync fn new_binding<", f + ": new_binding")
    w = _LoopWalk(f + ": new_binding", dict(bind_rec, fns=fns))
    rows, _t = w.block(body, "")
    w.check_counts(body)
    if len(w.tasks) != 1:
        w.fail("expected exactly one spawned block (the reply task)")
    emit_rows("client_binding_points", rows, f + " new_binding (helper called on the datagram loop's task; Propagate = out of the helper, to its call site)")
    emit_rows("client_reply_task_points", w.tasks[0], f + " new_binding: the spawned reply task (dispositions relative to ITS loop)")

    header = ("(* GENERATED by tools/gen_from_source.py from /repo's working tree -- do not edit.\n"
              "   Loop shapes: every fallible point of the long-lived service loops, in source order, with what the code\n"
              "   around it does when it fails.  The vocabulary below is fixed text of the translator; the tables are extracted. *)\n"
              "From Coq Require Import List.\nImport ListNotations.\n\n" + _LS_VOCAB + "\n")
    return header + "\n".join(L) + "\n", facts


# ------------------------------------------------------------------------------------------
# C02 / C09: the per-protocol ADAPTERS of the UDP relay, read off the function BODIES.
# The client's datagram loop (client/template.rs transfer_udp / new_binding) is generic; what differs between the protocols is
# in the functions client.rs hands it: new_key, new_*_outbound, to_inbound_recv, to_outbound_send of <protocol>::udp.  For each
# one the parameters are given ROLES by their position and type in the signature (whatever they are called), the body is
# evaluated symbolically (tuples, field access, destructuring `let`, clone / to_owned / into / & / *, `if` as a value;
# log lines and statements that assign nothing are skipped), and the shape of the RESULT is classified:
#     new_key            SENDER                    KSender            (SENDER, TARGET) in either order   KSenderTarget
#     to_outbound_send   contains the TARGET       OutKeepsTarget     only the CONTENT (and the proxy)   OutDropsTarget
#     to_inbound_recv    ((CONTENT, L), SENDER):   L = address of the decoded item      LabelFromServer
#                                                  L = the binding-target parameter     LabelBindingTarget
#     new_*_outbound     target parameter unused   OutboundAnyTarget  passed into a constructor (followed through functions
#                                                  of the same module)                  OutboundFixedTarget
# Anything else -- a conditional label, a constant key, a dropped payload, a reply not sent to SENDER, transports of one
# protocol that disagree -- raises (tag [UdpAdapters]).  The roles themselves are anchored at the call sites: which functions
# client.rs passes for which protocol (one module per call), in which parameter position of transfer_udp, and with which
# arguments transfer_udp / new_binding call them (sender and target of the received datagram; the creating datagram's target
# and sender for the reply task).  Server side: which address a relayed datagram is sent to (the packet's / the request
# header's) and what server/shadowsocks.rs associate_key puts into the association key.
_UA_VOCAB = """Inductive proto := Shadowsocks | Trojan | Vmess.
(* new_key(sender, target): what the binding key is made of *)
Inductive key_shape := KSender | KSenderTarget.
(* to_outbound_send((content, target), proxy): does the datagram's own target go out with it? *)
Inductive out_shape := OutKeepsTarget | OutDropsTarget.
(* to_inbound_recv(item, binding_target, sender): where the address label of the reply comes from *)
Inductive label_src := LabelFromServer | LabelBindingTarget.
(* new_*_outbound(target, ..): is the target given at creation built into the outbound (its request header)? *)
Inductive outbound_binding := OutboundAnyTarget | OutboundFixedTarget.
(* server: which address a relayed datagram is sent to: the one inside the packet, or the one of the request header *)
Inductive dest_src := DestPerPacket | DestRequestHeader.
(* server, shadowsocks: the components of the association key *)
Inductive akey_part := AkSessionId | AkUser | AkClientUnlessReplayProtected | AkClientAlways.
"""

_UA_PROTOS = [("Shadowsocks", "Shadowsocks", "shadowsocks"), ("Trojan", "Trojan", "trojan"), ("Vmess", "VMess", "vmess")]   # Coq name, Protocol variant, module
_UA_IDENTITY_METHODS = {"clone", "to_owned", "into", "as_ref", "borrow", "deref", "cloned", "copied"}
_UA_IDENTITY_FNS = {"clone", "to_owned", "from", "into"}


def _ua_split(t, what, sep=","):
    """top-level split of a parameter / argument / type list: brackets ( [ { and generic angle brackets are nested"""
    out, depth, start, i = [], 0, 0, 0
    while i < len(t):
        j = _skip_literal(t, i)
        if j != i:
            i = j
            continue
        c = t[i]
        if c in "([{":
            depth += 1
        elif c in ")]}":
            depth -= 1
        elif c == "<" and (i == 0 or re.match(r"[\w:>]", t[i - 1])):
            depth += 1          # `Client<'a, N>` / `::<16>`  (a comparison has a space before `<` after tidying)
        elif c == ">" and i > 0 and t[i - 1] not in "-=" and depth > 0 and (i == 0 or t[i - 1] != " "):
            depth -= 1
        elif c == sep and depth == 0:
            out.append(t[start:i].strip())
            start = i + 1
        i += 1
    if depth != 0:
        raise AnchorMissing("%s: unbalanced brackets in %r" % (what, t[:80]))
    if t[start:].strip():
        out.append(t[start:].strip())
    return out


def _ua_top_index(t, pred):
    """index of the first position at bracket depth 0 (round / square / curly) where pred(t, i) holds, else -1"""
    depth, i = 0, 0
    while i < len(t):
        j = _skip_literal(t, i)
        if j != i:
            i = j
            continue
        if t[i] in "([{":
            depth += 1
        elif t[i] in ")]}":
            depth -= 1
        elif depth == 0 and pred(t, i):
            return i
        i += 1
    return -1


def _ua_is_single_colon(t, i):
    return t[i] == ":" and t[i + 1:i + 2] != ":" and t[i - 1:i] != ":"


def _ua_is_assign(t, i):
    return t[i] == "=" and t[i + 1:i + 2] not in ("=", ">") and t[i - 1:i] not in ("=", "!", "<", ">", "+", "-", "*", "/", "%", "|", "&", "^")


def _ua_type(ty):
    ty = re.sub(r"'\w+\s*", "", ty.strip())          # lifetimes
    return re.sub(r"\s+", "", ty) if not re.search(r"\bmut\b|\bdyn\b|\bimpl\b", ty) else re.sub(r"\s+", " ", ty)


def _ua_fn(text, name_re, what):
    """(name, [(pattern, type)], return type, tidy body) of the fn whose name matches name_re in (tidy) text"""
    m = re.search(r"\bfn (%s)\b" % name_re, text)
    if not m:
        raise AnchorMissing("%s: function not found" % what)
    hdr, body = _ep_item(text[m.start():], r"\bfn ", what)
    k = _first_open(hdr, 0, "(", what)
    e = _close_of(hdr, k, what)
    params = []
    for p in _ua_split(hdr[k + 1:e], what):
        c = _ua_top_index(p, _ua_is_single_colon)
        if c < 0:
            params.append((p.strip(), ""))          # self
        else:
            params.append((p[:c].strip(), _ua_type(p[c + 1:])))
    ret = hdr[e + 1:].strip()
    ret = re.sub(r"\bwhere\b.*", "", ret).strip()
    ret = _ua_type(ret[2:]) if ret.startswith("->") else ""
    return m.group(1), params, ret, body, hdr


def _ua_show(v):
    k, x = v
    if k == "atom":
        return x
    if k == "tuple":
        return "(" + ", ".join(_ua_show(y) for y in x) + ")"
    if k == "cond":
        return "either " + " or ".join(_ua_show(y) for y in x)
    return "<%s>" % x


class _UaEval:
    """symbolic evaluation of a small pure function body"""

    def __init__(self, what):
        self.what = what

    def fail(self, msg):
        raise AnchorMissing("%s: %s" % (self.what, msg))

    def bind(self, pat, val, env):
        pat = pat.strip()
        c = _ua_top_index(pat, _ua_is_single_colon)
        if c >= 0:
            pat = pat[:c].strip()                   # `x: T`
        while pat.startswith("&"):
            pat = pat[1:].strip()
        pat = re.sub(r"^(?:ref |mut )+", "", pat)
        if pat == "_" or pat == "..":
            return
        if re.fullmatch(r"[A-Za-z_]\w*", pat):
            env[pat] = val
            return
        if pat.startswith("(") and _close_of(pat, 0, self.what) == len(pat) - 1:
            parts = _ua_split(pat[1:-1], self.what)
            if val[0] == "tuple" and len(val[1]) == len(parts) and ".." not in parts:
                for p, v in zip(parts, val[1]):
                    self.bind(p, v, env)
            else:
                for p in parts:
                    self.bind(p, ("opaque", "part of " + _ua_show(val)), env)
            return
        for nm in re.findall(r"\b[a-z_]\w*\b", _ep_code_only(pat)):      # a refutable / struct pattern: its variables are unknown values
            env[nm] = ("opaque", "bound by pattern " + pat)

    def block(self, body, env):
        sts = _stmts(body, self.what)
        for i, st in enumerate(sts):
            last = i == len(sts) - 1
            if st.startswith("let "):
                if not st.endswith(";"):
                    self.fail("unterminated let: %r" % st[:80])
                inner = st[4:-1]
                a = _ua_top_index(inner, _ua_is_assign)
                if a < 0:
                    self.bind(inner, ("opaque", "uninitialised"), env)
                else:
                    self.bind(inner[:a], self.ev(inner[a + 1:], env), env)
                continue
            m = re.fullmatch(r"return (.+);", st)
            if m:
                return self.ev(m.group(1), env)
            if last and not st.endswith(";"):
                return self.ev(st, env)
            if _ep_is_log(st):
                continue
            code = _ep_code_only(st)
            m = re.fullmatch(r"([A-Za-z_]\w*) = (.+);", st)
            if m and _ua_top_index(m.group(2), _ua_is_assign) < 0:
                env[m.group(1)] = self.ev(m.group(2), env)
                continue
            if _ua_top_index(code, _ua_is_assign) < 0 and not re.search(r"[^=!<>]=[^=>]", code) and not re.search(r"\breturn\b|\?", code):
                continue                             # assigns nothing, returns nothing: cannot change the result
            self.fail("unrecognised statement %r" % st[:120])
        self.fail("no result expression")

    def ev(self, x, env):
        x = x.strip()
        if not x:
            return ("opaque", "empty")
        if x[0] == "(" and _close_of(x, 0, self.what) == len(x) - 1:
            inner = x[1:-1].strip()
            parts = _ua_split(inner, self.what)
            if len(parts) == 1 and not inner.endswith(","):
                return self.ev(parts[0], env)
            return ("tuple", tuple(self.ev(p, env) for p in parts))
        if x[0] == "{" and _close_of(x, 0, self.what) == len(x) - 1:
            return self.block(x[1:-1].strip(), dict(env))
        if x.startswith("&mut "):
            return self.ev(x[5:], env)
        if x[0] in "&*":
            return self.ev(x[1:], env)
        if re.match(r"(if|match) ", x):
            br = _ep_branch(x, self.what)
            vals = []
            for (pat, body) in br[1]:
                if not body.strip():
                    return ("opaque", "branch without a value")
                env_b = dict(env)
                if pat not in ("true", "false"):
                    self.bind(pat if not re.match(r"\w+\(", pat) else "(" + pat + ")", ("opaque", "matched"), env_b)
                v = self.block(body, env_b)
                vals += list(v[1]) if v[0] == "cond" else [v]
            uniq = []
            for v in vals:
                if v not in uniq:
                    uniq.append(v)
            return uniq[0] if len(uniq) == 1 else ("cond", tuple(uniq))
        if re.fullmatch(r"[A-Za-z_]\w*", x):
            return env.get(x, ("opaque", x))
        d = -1                                       # last top-level `.` that is a field / method access
        depth, i = 0, 0
        while i < len(x):
            j = _skip_literal(x, i)
            if j != i:
                i = j
                continue
            if x[i] in "([{":
                depth += 1
            elif x[i] in ")]}":
                depth -= 1
            elif x[i] == "." and depth == 0 and x[i + 1:i + 2] != "." and x[i - 1:i] != ".":
                d = i
            i += 1
        if d > 0:
            head, tail = x[:d], x[d + 1:]
            if re.fullmatch(r"\d+", tail):
                v = self.ev(head, env)
                if v[0] == "tuple" and int(tail) < len(v[1]):
                    return v[1][int(tail)]
                return ("opaque", "field %s of %s" % (tail, _ua_show(v)))
            m = re.fullmatch(r"(\w+)\(\)", tail)
            if m and m.group(1) in _UA_IDENTITY_METHODS:
                return self.ev(head, env)
            return ("opaque", x)
        m = re.fullmatch(r"(?:\w+::)+(\w+)\((.*)\)", x)
        if m and m.group(1) in _UA_IDENTITY_FNS:
            args = _ua_split(m.group(2), self.what)
            if len(args) == 1:
                return self.ev(args[0], env)
        return ("opaque", x)


def _ua_sym_item(ty, what):
    """symbolic value of what the outbound stream yields, from its type"""
    if ty == "DatagramPacket":
        return ("tuple", (("atom", "ITEM_CONTENT"), ("atom", "ITEM_ADDR")))
    if ty == "BytesMut":
        return ("atom", "ITEM_CONTENT")
    if ty == "Address":
        return ("atom", "ITEM_ADDR")
    if ty == "SocketAddr":
        return ("atom", "ITEM_PEER")
    if ty.startswith("(") and ty.endswith(")"):
        return ("tuple", tuple(_ua_sym_item(p, what) for p in _ua_split(ty[1:-1], what)))
    raise AnchorMissing("%s: item type %r is not made of DatagramPacket / BytesMut / Address / SocketAddr" % (what, ty))


def _ua_atoms(v, what, role):
    k, x = v
    if k == "atom":
        return [x]
    if k == "tuple":
        return [a for y in x for a in _ua_atoms(y, what, role)]
    if k == "cond":
        raise AnchorMissing("%s: %s is CONDITIONAL (%s): not a shape the model knows" % (what, role, _ua_show(v)))
    raise AnchorMissing("%s: %s contains a value that is not one of the parameters: %s" % (what, role, _ua_show(v)))


def _ua_calls(text, callee, what):
    """argument lists of every call `callee(..)` in (tidy) text"""
    out = []
    for m in re.finditer(r"(?<![\w:\.])%s\(" % re.escape(callee), text):
        k = m.end() - 1
        out.append(_ua_split(text[k + 1:_close_of(text, k, what)], what))
    return out


def _ua_target_use(modbody, fname, argidx, what, depth=0):
    """is parameter number argidx of fn `fname` (the target) passed on into a constructor?  -> (fixed?, sink)"""
    if depth > 3:
        raise AnchorMissing("%s: call chain too deep" % what)
    name, params, _ret, body, _h = _ua_fn(modbody, re.escape(fname), what + ": " + fname)
    if argidx >= len(params):
        raise AnchorMissing("%s: %s has no parameter %d" % (what, fname, argidx))
    pat, ty = params[argidx]
    if depth == 0 and ty != "&Address":
        raise AnchorMissing("%s: %s: the first parameter is %r, expected the target `&Address`" % (what, fname, ty))
    pat = re.sub(r"^(?:ref |mut )+", "", pat)
    if pat == "_":
        return (False, None)
    if not re.fullmatch(r"[A-Za-z_]\w*", pat):
        raise AnchorMissing("%s: %s: target parameter pattern %r" % (what, fname, pat))
    names, sinks = {pat}, []
    for st in _stmts(body, what):
        if _ep_is_log(st):
            continue
        code = _ep_code_only(st)
        m = re.fullmatch(r"let (?:mut )?(\w+)(?:: [^=]+)? = &?(\w+)(?:\.(?:clone|to_owned|into)\(\))?;", code)
        if m and m.group(2) in names:
            names.add(m.group(1))
            continue
        for nm in list(names):
            for mm in re.finditer(r"\b%s\b" % re.escape(nm), code):
                # innermost enclosing call
                i, d, k = mm.start() - 1, 0, -1
                while i >= 0:
                    if code[i] in ")]}":
                        d += 1
                    elif code[i] in "([{":
                        if d == 0:
                            k = i
                            break
                        d -= 1
                    i -= 1
                cm = re.search(r"((?:\w+::)*\w+)(?:::<[^()]*>)?$", code[:k]) if k >= 0 and code[k] == "(" else None
                if not cm:
                    raise AnchorMissing("%s: %s: the target is used outside a call: %r" % (what, fname, st[:100]))
                callee = cm.group(1)
                e = _close_of(code, k, what)
                args = _ua_split(code[k + 1:e], what)
                idx = [j for j, a in enumerate(args) if re.search(r"\b%s\b" % re.escape(nm), a)]
                if "::" not in callee and re.search(r"\bfn %s\b" % re.escape(callee), modbody):
                    fx, sk = _ua_target_use(modbody, callee, idx[0], what, depth + 1)
                    if fx:
                        sinks += sk
                else:
                    sinks.append(callee)
    return (bool(sinks), sorted(set(sinks)))


def gen_udp_adapters():
    L, facts = [], {}
    TAG = "UdpAdapters"

    # ---------------- the datagram type ----------------
    find("octo-squirrel/src/codec.rs", r"pub type DatagramPacket = \(BytesMut, Address\);", what="DatagramPacket = (BytesMut, Address)")

    # ---------------- client/template.rs: the roles of the four functions, anchored at the generic loop ----------------
    f = "octo-squirrel-client/src/client/template.rs"
    ts = _ep_tidy(src(f))
    _nm, tparams, _r, tbody, thdr = _ua_fn(ts, "transfer_udp", f + ": transfer_udp")
    role_rx = {"key": r"(\w+): FnOnce\(SocketAddr, &Address\) -> \w+",
               "out": r"(\w+): AsyncFn\(&Address, &\w+\) -> Result<",
               "send": r"(\w+): FnOnce\(DatagramPacket, SocketAddr\) -> \w+",
               "recv": r"(\w+): FnOnce\(\w+, &Address, SocketAddr\) -> \(DatagramPacket, SocketAddr\)"}

    def roles_of(hdr, params, what, wanted):
        pos, nm = {}, {}
        for role in wanted:
            ms = re.findall(role_rx[role], hdr)
            if len(ms) != 1:
                raise AnchorMissing("%s: expected exactly one type parameter bounded like %s" % (what, role_rx[role]))
            idx = [i for i, (_p, ty) in enumerate(params) if ty == ms[0]]
            if len(idx) != 1 or not re.fullmatch(r"\w+", params[idx[0]][0]):
                raise AnchorMissing("%s: expected exactly one parameter of type %s" % (what, ms[0]))
            pos[role], nm[role] = idx[0], params[idx[0]][0]
        return pos, nm
    tpos, tnm = roles_of(thdr, tparams, f + ": transfer_udp", ["key", "out", "send", "recv"])
    m = re.findall(r"Some\(Ok\(\(\((\w+), (\w+)\), (\w+)\)\)\) = \w+\.next\(\)", tbody)
    if len(m) != 1:
        raise AnchorMissing(f + ": transfer_udp: the select! branch that receives ((content, target), sender) from the local socket")
    dg_content, dg_target, dg_sender = m[0]
    calls = _ua_calls(tbody, tnm["key"], f)
    if calls != [[dg_sender, "&" + dg_target]]:
        raise AnchorMissing(f + ": transfer_udp: the key function must be called once, as %s(%s, &%s); found %r" % (tnm["key"], dg_sender, dg_target, calls))
    calls = _ua_calls(tbody, tnm["out"], f)
    if not calls or any(len(a) != 2 or a[0] != "&" + dg_target for a in calls):
        raise AnchorMissing(f + ": transfer_udp: every outbound is made for the datagram's target: %s(&%s, ..); found %r" % (tnm["out"], dg_target, calls))
    dgram = "((%s, %s), %s)" % (dg_content, dg_target, dg_sender)
    calls = _ua_calls(tbody, tnm["send"], f)
    if not calls or any(len(a) != 2 or a[0] != "(%s, %s)" % (dg_content, dg_target) for a in calls):
        raise AnchorMissing(f + ": transfer_udp: %s((%s, %s), <server>); found %r" % (tnm["send"], dg_content, dg_target, calls))
    _nm, bparams, _r, bbody, bhdr = _ua_fn(ts, "new_binding", f + ": new_binding")
    bpos, bnm = roles_of(bhdr, bparams, f + ": new_binding", ["send", "recv"])
    midx = [i for i, (_p, ty) in enumerate(bparams) if ty == "(DatagramPacket,SocketAddr)"]
    if len(midx) != 1:
        raise AnchorMissing(f + ": new_binding: exactly one parameter of type (DatagramPacket, SocketAddr) (the creating datagram)")
    calls = _ua_calls(tbody, "new_binding", f)
    if not calls:
        raise AnchorMissing(f + ": transfer_udp does not call new_binding")
    for a in calls:
        if len(a) != len(bparams) or a[midx[0]] != dgram or a[bpos["recv"]] != tnm["recv"] or a[bpos["send"]] != tnm["send"]:
            raise AnchorMissing(f + ": transfer_udp: new_binding must get the datagram %s and the two adapter functions in their positions; found %r" % (dgram, a))
    msg = bparams[midx[0]][0]
    m = re.findall(r"let \(\((\w+), (\w+)\), (\w+)\) = %s;" % re.escape(msg), bbody)
    if len(m) != 1:
        raise AnchorMissing(f + ": new_binding: `let ((content, target), sender) = %s;`" % msg)
    b_content, b_target, b_sender = m[0]
    m = re.findall(r"let (\w+) = %s\.(?:clone|to_owned)\(\);" % re.escape(b_target), bbody)
    calls = _ua_calls(bbody, bnm["recv"], f)
    ok_targets = ["&" + x for x in m] + ["&" + b_target]
    if len(calls) != 1 or len(calls[0]) != 3 or calls[0][1] not in ok_targets or calls[0][2] != b_sender:
        raise AnchorMissing(f + ": new_binding: the reply task must call %s(<received>, &<copy of %s>, %s); found %r" % (bnm["recv"], b_target, b_sender, calls))
    calls = _ua_calls(bbody, bnm["send"], f)
    if len(calls) != 1 or len(calls[0]) != 2 or calls[0][0] != "(%s, %s)" % (b_content, b_target):
        raise AnchorMissing(f + ": new_binding: the first datagram goes out as %s((%s, %s), <server>); found %r" % (bnm["send"], b_content, b_target, calls))

    # ---------------- client.rs: which module's functions are handed to transfer_udp for which protocol ----------------
    f = "octo-squirrel-client/src/client.rs"
    _nm, _p, _r, cbody, _h = _ua_fn(_ep_tidy(src(f)), "transfer_udp", f + ": transfer_udp")
    sts = [st for st in _stmts(cbody, f) if not _ep_is_log(st)]
    br = None
    if len(sts) == 1 and sts[0].startswith("match "):      # the match may be followed by `.unwrap_or_else(log)`
        k = _first_open(sts[0], 6, "{", f)
        br = (sts[0][6:k].strip(), [(p_, _block_inner(x_)) for (p_, x_) in _arms(sts[0][k + 1:_close_of(sts[0], k, f)], f)])
    if not br or not re.match(r"\(\w+\.protocol,", br[0]):
        raise AnchorMissing(f + ": transfer_udp: expected one `match (<config>.protocol, ..)`")
    wired = {}
    for (pat, body) in br[1]:
        pm = re.match(r"\((?:\w+::)*(\w+),", pat)
        proto = [c for (c, v, _m) in _UA_PROTOS if pm and pm.group(1) == v]
        calls = _ua_calls(body, "template::transfer_udp", f)
        if not proto:
            if calls:
                raise AnchorMissing(f + ": transfer_udp: arm %r is not one protocol" % pat)
            continue
        mod = [mo for (c, _v, mo) in _UA_PROTOS if c == proto[0]][0]
        for a in calls:
            if len(a) != len(tparams):
                raise AnchorMissing(f + ": transfer_udp call with %d arguments, template::transfer_udp has %d parameters" % (len(a), len(tparams)))
            w = wired.setdefault(proto[0], {"key": set(), "out": set(), "send": set(), "recv": set()})
            for role in ("key", "out", "send", "recv"):
                am = re.fullmatch(r"(?:crate::client::|self::|super::)?(\w+)::udp::(\w+)(?:::<[^()]*>)?", a[tpos[role]])
                if not am or am.group(1) != mod:
                    raise AnchorMissing(f + ": transfer_udp: the %s function of a %s relay is %r, expected a function of %s::udp" % (role, proto[0], a[tpos[role]], mod))
                w[role].add(am.group(2))
    for (c, _v, _m) in _UA_PROTOS:
        if c not in wired:
            raise AnchorMissing(f + ": transfer_udp: no relay for %s" % c)
        for role in ("key", "send", "recv"):
            if len(wired[c][role]) != 1:
                raise AnchorMissing(f + ": transfer_udp: the transports of %s use different %s functions: %s" % (c, role, sorted(wired[c][role])))

    # ---------------- the adapter functions themselves ----------------
    key_shape, out_shape, label_src, bound = {}, {}, {}, {}
    detail = {}
    for (c, _v, mod) in _UA_PROTOS:
        f = "octo-squirrel-client/src/client/%s.rs" % mod
        _hdr, modbody = _ep_item(src(f), r"\bmod udp \{", f + ": mod udp")
        # new_key
        fname = next(iter(wired[c]["key"]))
        what = "%s: udp::%s" % (f, fname)
        _nm, params, _ret, body, _h = _ua_fn(modbody, re.escape(fname), what)
        if [ty for (_p, ty) in params] != ["SocketAddr", "&Address"]:
            raise AnchorMissing("%s: parameters %r, expected (SocketAddr, &Address)" % (what, params))
        ev, env = _UaEval(what), {}
        ev.bind(params[0][0], ("atom", "SENDER"), env)
        ev.bind(params[1][0], ("atom", "TARGET"), env)
        v = ev.block(body, env)
        if v == ("atom", "SENDER"):
            key_shape[c] = "KSender"
        elif v[0] == "tuple" and sorted(v[1]) == [("atom", "SENDER"), ("atom", "TARGET")]:
            key_shape[c] = "KSenderTarget"
        else:
            raise AnchorMissing("%s: the key is %s: neither the sender nor (sender, target)" % (what, _ua_show(v)))
        # to_outbound_send
        fname = next(iter(wired[c]["send"]))
        what = "%s: udp::%s" % (f, fname)
        _nm, params, _ret, body, _h = _ua_fn(modbody, re.escape(fname), what)
        if [ty for (_p, ty) in params] != ["DatagramPacket", "SocketAddr"]:
            raise AnchorMissing("%s: parameters %r, expected (DatagramPacket, SocketAddr)" % (what, params))
        ev, env = _UaEval(what), {}
        ev.bind(params[0][0], ("tuple", (("atom", "CONTENT"), ("atom", "TARGET"))), env)
        ev.bind(params[1][0], ("atom", "PROXY"), env)
        atoms = _ua_atoms(ev.block(body, env), what, "what is sent")
        if atoms.count("CONTENT") != 1 or atoms.count("TARGET") > 1 or atoms.count("PROXY") > 1:
            raise AnchorMissing("%s: what is sent is made of %r: the content must be there exactly once" % (what, atoms))
        out_shape[c] = "OutKeepsTarget" if "TARGET" in atoms else "OutDropsTarget"
        # to_inbound_recv
        fname = next(iter(wired[c]["recv"]))
        what = "%s: udp::%s" % (f, fname)
        _nm, params, ret, body, _h = _ua_fn(modbody, re.escape(fname), what)
        if len(params) != 3 or [ty for (_p, ty) in params[1:]] != ["&Address", "SocketAddr"] or ret != "(DatagramPacket,SocketAddr)":
            raise AnchorMissing("%s: signature %r -> %r, expected (<item>, &Address, SocketAddr) -> (DatagramPacket, SocketAddr)" % (what, params, ret))
        ev, env = _UaEval(what), {}
        ev.bind(params[0][0], _ua_sym_item(params[0][1], what), env)
        ev.bind(params[1][0], ("atom", "BINDING_TARGET"), env)
        ev.bind(params[2][0], ("atom", "SENDER"), env)
        v = ev.block(body, env)
        if not (v[0] == "tuple" and len(v[1]) == 2 and v[1][0][0] == "tuple" and len(v[1][0][1]) == 2):
            raise AnchorMissing("%s: the result is %s, expected ((content, label), destination)" % (what, _ua_show(v)))
        (content, label), dst = v[1][0][1], v[1][1]
        if content != ("atom", "ITEM_CONTENT"):
            raise AnchorMissing("%s: the payload handed to the application is %s, not the content of the received item" % (what, _ua_show(content)))
        if dst != ("atom", "SENDER"):
            raise AnchorMissing("%s: the reply is sent to %s, not to the sender the binding was made for" % (what, _ua_show(dst)))
        if label == ("atom", "ITEM_ADDR"):
            label_src[c] = "LabelFromServer"
        elif label == ("atom", "BINDING_TARGET"):
            label_src[c] = "LabelBindingTarget"
        elif label[0] == "cond":
            raise AnchorMissing("%s: the label of a reply is CONDITIONAL (%s): not a shape the model knows (a label taken from the binding is only the replying target when the binding key contains the target)" % (what, _ua_show(label)))
        else:
            raise AnchorMissing("%s: the label of a reply is %s: neither the address of the received item nor the binding's target" % (what, _ua_show(label)))
        # new_*_outbound
        res = {}
        for fname in sorted(wired[c]["out"]):
            res[fname] = _ua_target_use(modbody, fname, 0, "%s: udp::%s" % (f, fname))
        if len({fx for (fx, _s) in res.values()}) != 1:
            raise AnchorMissing("%s: the outbound constructors of one protocol disagree about the target: %r" % (f, res))
        fx = next(iter(res.values()))[0]
        bound[c] = "OutboundFixedTarget" if fx else "OutboundAnyTarget"
        detail[c] = {"outbounds": {k: v[1] for k, v in res.items()}}

    # ---------------- server: which address a relayed datagram is sent to ----------------
    dest = {}

    def enclosing_fn(text, pos, what):
        best = None
        for m in re.finditer(r"\bfn (\w+)\b", text):
            if m.start() > pos:
                break
            try:
                k = _first_open(text, m.end(), "{", what)
                e = _close_of(text, k, what)
            except AnchorMissing:
                continue
            semi = text.find(";", m.end(), k)
            if semi >= 0 and text.count("(", m.end(), semi) == text.count(")", m.end(), semi) and "{" not in text[m.end():semi]:
                continue                              # a declaration without body
            if k < pos < e:
                best = (m.group(1), text[m.start():k], text[k + 1:e])
        if not best:
            raise AnchorMissing("%s: no enclosing function" % what)
        return best

    for (c, mod) in (("Trojan", "trojan"), ("Vmess", "vmess")):
        f = "octo-squirrel-server/src/server/%s.rs" % mod
        t = _ep_tidy(src(f))
        kinds = set()
        n_sites = 0
        for m in re.finditer(r"\bInboundIn::RelayUdp\(", t):
            k = m.end() - 1
            e = _close_of(t, k, f)
            if re.match(r" (?:=>|=(?!=)|\|)", t[e + 1:e + 4]) or re.match(r" if ", t[e + 1:e + 5]):
                continue                              # a pattern, not a construction
            n_sites += 1
            args = _ua_split(t[k + 1:e], f)
            if len(args) != 2:
                raise AnchorMissing(f + ": InboundIn::RelayUdp with %d fields" % len(args))
            fname, fhdr, fbody = enclosing_fn(t, m.start(), f + ": InboundIn::RelayUdp(..)")
            what = "%s: %s" % (f, fname)
            a = re.sub(r"\.(?:clone|to_owned)\(\)$", "", args[1])
            hm = re.fullmatch(r"(\w+)\.address", a)
            if hm and re.search(r"\b%s: &(?:mut )?RequestHeader\b" % re.escape(hm.group(1)), fhdr):
                kinds.add("DestRequestHeader")
                continue
            if re.fullmatch(r"\w+", a):
                # address, length and payload of the packet are read one after the other from the same buffer
                bm = re.search(r"\b(\w+): &mut BytesMut\b", fhdr)
                am = re.findall(r"let %s = (?:\w+::)*address::decode\((\w+)\)\?;" % re.escape(a), fbody)
                payload = args[0]
                pm = re.fullmatch(r"\w+", payload) and re.findall(r"let %s = (.+?);" % re.escape(payload), fbody)
                if pm:
                    payload = pm[0]
                sm = re.fullmatch(r"(\w+)\.split_to\((\w+)(?: as usize)?\)", payload)
                if bm and am == [bm.group(1)] and sm and sm.group(1) == bm.group(1):
                    lm = list(re.finditer(r"let %s = %s\.get_u16\(\)(?: as usize)?;" % (re.escape(sm.group(2)), re.escape(bm.group(1))), fbody))
                    ai = fbody.find("let %s = " % a)
                    if len(lm) == 1 and ai >= 0 and ai < lm[0].start() < fbody.find("InboundIn::RelayUdp("):
                        kinds.add("DestPerPacket")
                        continue
            raise AnchorMissing("%s: the address of a relayed datagram is %r: neither the request header's nor one decoded from the packet itself" % (what, args[1]))
        if n_sites == 0 or len(kinds) != 1:
            raise AnchorMissing(f + ": InboundIn::RelayUdp constructions: %d sites, kinds %s" % (n_sites, sorted(kinds)))
        dest[c] = next(iter(kinds))
    f = "octo-squirrel-server/src/server/shadowsocks.rs"
    t = _ep_tidy(src(f))
    _nm, _p, _r, ubody, _h = _ua_fn(t, "startup_udp", f + ": startup_udp")
    m = re.findall(r"match SessionCodec::<\w+>::decode\(&\w+, &mut \w+\) \{ Ok\(Some\(\((\w+), (\w+), (\w+)\)\)\) => \{", ubody)
    if len(m) != 1:
        raise AnchorMissing(f + ": startup_udp: `match SessionCodec::<N>::decode(..) { Ok(Some((content, peer_addr, session))) => {`")
    d_content, d_peer, d_session = m[0]
    mm = re.findall(r"let (\w+) = \(%s, %s, %s\);" % (d_content, d_peer, d_session), ubody)
    sent = ["(%s, %s, %s)" % (d_content, d_peer, d_session)] + mm
    _nm, _p, _r, rbody, _h = _ua_fn(t, "relay", f + ": UdpAssociateContext::relay")
    m = re.findall(r"Some\(\((\w+), (\w+), (\w+)\)\) => \{", rbody)
    if len(m) != 1:
        raise AnchorMissing(f + ": relay: the arm that receives (content, peer_addr, session) from the datagram loop")
    r_content, r_peer, _r_session = m[0]
    m = re.findall(r"let (\w+) = match %s\.to_socket_addr\(\) \{ Ok\((\w+)\) => (\w+)," % re.escape(r_peer), rbody)
    if len(m) != 1 or m[0][1] != m[0][2]:
        raise AnchorMissing(f + ": relay: `let resolved = match %s.to_socket_addr() { Ok(a) => a, ..`" % r_peer)
    calls = [a for a in re.findall(r"\.send_to\(&(\w+), (\w+)\)", rbody)]
    if calls != [(r_content, m[0][0])]:
        raise AnchorMissing(f + ": relay: exactly one send_to(&%s, %s); found %r" % (r_content, m[0][0], calls))
    if not mm and not re.search(r"try_send\(\(%s, %s, %s\)\)" % (d_content, d_peer, d_session), ubody):
        raise AnchorMissing(f + ": startup_udp: the decoded (content, peer_addr, session) is what is handed to the association")
    dest["Shadowsocks"] = "DestPerPacket"

    # ---------------- server/shadowsocks.rs associate_key ----------------
    cands = []
    for m in re.finditer(r"\bfn (\w+)\b", t):            # found by its signature (bool, &Session<N>, SocketAddr), whatever it is called
        try:
            c_ = _ua_fn(t[m.start():], re.escape(m.group(1)), f)
        except AnchorMissing:
            continue
        if sorted(ty for (_p, ty) in c_[1]) == sorted(["bool", "SocketAddr"] + [ty for (_p, ty) in c_[1] if re.fullmatch(r"&Session<\w+>", ty)][:1]) and len(c_[1]) == 3:
            cands.append(c_)
    if len(cands) != 1:
        raise AnchorMissing(f + ": expected exactly one function (bool, &Session<N>, SocketAddr) -> association key; found %r" % [c_[0] for c_ in cands])
    akname, params, _ret, body, _h = cands[0]
    what = f + ": " + akname
    kl = re.findall(r"let (\w+) = %s\((\w+), &(\w+), (\w+)\);" % re.escape(akname), ubody)
    if not any(sess == d_session and re.search(r"\.get_mut\(&%s\)" % re.escape(k_), ubody) for (k_, _rp, sess, _cl) in kl):
        raise AnchorMissing(f + ": startup_udp: the association of a datagram is looked up under `let key = %s(.., &%s, ..)`" % (akname, d_session))
    roles = {}
    for (p, ty) in params:
        role = "RP" if ty == "bool" else "SESSION" if re.fullmatch(r"&Session<\w+>", ty) else "CLIENT" if ty == "SocketAddr" else None
        if role is None or role in roles or not re.fullmatch(r"_|[A-Za-z_]\w*", p):
            raise AnchorMissing("%s: parameters %r, expected one bool, one &Session<N>, one SocketAddr" % (what, params))
        roles[role] = p
    if set(roles) != {"RP", "SESSION", "CLIENT"}:
        raise AnchorMissing("%s: parameters %r, expected one bool, one &Session<N>, one SocketAddr" % (what, params))
    sts = [st for st in _stmts(body, what) if not _ep_is_log(st)]
    if len(sts) != 1 or sts[0].endswith(";") or not (sts[0].startswith("(") and _close_of(sts[0], 0, what) == len(sts[0]) - 1):
        raise AnchorMissing("%s: the body is not a single tuple expression" % what)
    S, RP, CL = (re.escape(roles[r]) for r in ("SESSION", "RP", "CLIENT"))
    part_rx = [("AkSessionId", r"%s\.client_session_id" % S),
               ("AkUser", r"%s\.user\.as_ref\(\)\.map\(\|(\w+)\| \1\.identity_hash\)" % S),
               ("AkClientUnlessReplayProtected", r"if %s \{ None \} else \{ Some\(%s\) \}" % (RP, CL)),
               ("AkClientUnlessReplayProtected", r"if !%s \{ Some\(%s\) \} else \{ None \}" % (RP, CL)),
               ("AkClientUnlessReplayProtected", r"\(!%s\)\.then_some\(%s\)" % (RP, CL)),
               ("AkClientAlways", r"Some\(%s\)" % CL), ("AkClientAlways", CL)]
    parts = []
    for comp in _ua_split(sts[0][1:-1], what):
        if comp == "None":
            continue                                  # a constant component distinguishes nothing
        hit = [nm for (nm, rx) in part_rx if re.fullmatch(rx, comp)]
        if not hit:
            raise AnchorMissing("%s: unrecognised key component %r" % (what, comp))
        parts.append(hit[0])
    if len(set(parts)) != len(parts):
        raise AnchorMissing("%s: a component occurs twice: %r" % (what, parts))

    # ---------------- output ----------------
    def table(name, ty, d, origin):
        facts[name] = dict(d)
        L.append("Definition %s (p : proto) : %s :=  (* %s *)\n  match p with %s end." % (
            name, ty, origin, " | ".join("%s => %s" % (c, d[c]) for (c, _v, _m) in _UA_PROTOS)))
    cm = "octo-squirrel-client/src/client/{shadowsocks,trojan,vmess}.rs mod udp: "
    table("client_key_shape", "key_shape", key_shape, cm + "new_key")
    table("client_out_shape", "out_shape", out_shape, cm + "to_outbound_send")
    table("client_label_src", "label_src", label_src, cm + "to_inbound_recv")
    table("client_outbound_binding", "outbound_binding", bound, cm + "the new_*_outbound functions client.rs passes to transfer_udp")
    table("server_udp_dest", "dest_src", dest, "octo-squirrel-server/src/server/{shadowsocks,trojan,vmess}.rs: the address a relayed datagram is sent to")
    facts["server_assoc_key_parts"] = parts
    facts["udp_adapter_detail"] = detail
    L.append("Definition server_assoc_key_parts : list akey_part := [%s].  (* octo-squirrel-server/src/server/shadowsocks.rs associate_key *)" % "; ".join(parts))
    header = ("(* GENERATED by tools/gen_from_source.py from /repo's working tree -- do not edit.\n"
              "   UDP adapters: what the per-protocol adapter functions of the client's SOCKS5-UDP relay (and the server's\n"
              "   association key / destination choice) DO with the sender, the target and the payload, read off their bodies.\n"
              "   The vocabulary below is fixed text of the translator; the tables after it are extracted. *)\n"
              "From Coq Require Import List.\nImport ListNotations.\n\n" + _UA_VOCAB + "\n")
    return header + "\n".join(L) + "\n", facts


# ------------------------------------------------------------------------------------------
# C16: the DOCUMENTED side.  /repo/README.md -> Generated/Readme.v.  Only the markdown is parsed (tables, the numbered
# `mode` list, the `> key: text` notes); every cell is emitted as the text / tick it is, nothing is interpreted and
# nothing is corrected (the README's own spelling `ucp` in the last Transport row stays `ucp`).  Proofs/ReadmeFacts.v
# compares the hand transcription Spec/Readme.v with this file.
_MD_TICK = "✔"          # the check mark the Transport table uses
_MD_README = "README.md"


def _md_fail(msg):
    raise AnchorMissing("%s: %s" % (_MD_README, msg))


def _md_lines():
    """README lines outside fenced code blocks (a fence is a line whose first non-blank text is ```)"""
    out, fenced = [], False
    try:
        text = src(_MD_README)
    except OSError as e:
        _md_fail("cannot be read (%s)" % e.__class__.__name__)
    for ln in text.splitlines():
        if ln.strip().startswith("```"):
            fenced = not fenced
            continue
        if not fenced:
            out.append(ln.rstrip())
    if fenced:
        _md_fail("unterminated ``` fence")
    return out


def _md_section(lines, title):
    """the lines of the one section whose heading is exactly `title`, up to the next heading"""
    hits = [i for i, ln in enumerate(lines) if re.fullmatch(r"#{1,6}\s+%s\s*" % re.escape(title), ln)]
    if len(hits) != 1:
        _md_fail("expected exactly one heading %r, found %d" % (title, len(hits)))
    j = hits[0] + 1
    while j < len(lines) and not re.match(r"#{1,6}\s", lines[j]):
        j += 1
    return lines[hits[0] + 1:j]


def _md_row(ln, what):
    t = ln.strip()
    if "\\|" in t:
        _md_fail("%s: escaped `|` in a table row is not understood: %r" % (what, ln))
    if len(t) < 2 or not (t.startswith("|") and t.endswith("|")):
        _md_fail("%s: a table row must start and end with `|`: %r" % (what, ln))
    return [c.strip() for c in t[1:-1].split("|")]


def _md_table(sec, what):
    """(header cells, body rows, the other non-blank lines) of a section holding exactly one pipe table"""
    idx = [i for i, ln in enumerate(sec) if ln.strip().startswith("|")]
    if not idx:
        _md_fail("%s: no table" % what)
    if idx != list(range(idx[0], idx[-1] + 1)):
        _md_fail("%s: more than one table (or a table interrupted by other lines)" % what)
    if len(idx) < 3:
        _md_fail("%s: a table needs a header row, a delimiter row and at least one body row" % what)
    rows = [_md_row(sec[i], what) for i in idx]
    header, delim, body = rows[0], rows[1], rows[2:]
    if len(delim) != len(header) or not all(re.fullmatch(r":?-+:?", c) for c in delim):
        _md_fail("%s: second table line is not a delimiter row matching the header: %r" % (what, sec[idx[1]]))
    for r, i in zip(body, idx[2:]):
        if len(r) != len(header):
            _md_fail("%s: row with %d cells under a header of %d: %r" % (what, len(r), len(header), sec[i]))
    other = [ln.strip() for k, ln in enumerate(sec) if k not in idx and ln.strip()]
    return header, body, other


def _md_code_spans(cell, what):
    """a cell made of `code` spans separated by blanks (or empty) -> the list of span texts"""
    if not re.fullmatch(r"(?:`[^`]+`\s*)*", cell):
        _md_fail("%s: cell %r is not a sequence of `code` spans" % (what, cell))
    return re.findall(r"`([^`]+)`", cell)


def _md_ident(s, what):
    if not re.fullmatch(r"[A-Za-z0-9][A-Za-z0-9_.\-]*", s):
        _md_fail("%s: %r is not a plain name" % (what, s))
    return s


def _md_pairs(xs):
    return "[" + "; ".join("(%s, %s)" % (coq_string(a), coq_string(b)) for a, b in xs) + "]"


def gen_readme():
    L, facts = [], {}
    lines = _md_lines()

    # --- "Transport": | Local-Peer | Client-Server | <one column per protocol> | ; key cells are one `code` span, the others a tick or empty
    what = "Transport table"
    header, body, _other = _md_table(_md_section(lines, "Transport"), what)
    if len(header) < 3 or any(not h for h in header):
        _md_fail("%s: expected two key columns and at least one protocol column, all titled; header %r" % (what, header))
    trows = []
    for r in body:
        keys = []
        for c in r[:2]:
            spans = _md_code_spans(c, what)
            if len(spans) != 1:
                _md_fail("%s: key cell %r is not exactly one `code` span" % (what, c))
            keys.append(_md_ident(spans[0], what))
        ticks = []
        for c in r[2:]:
            if c not in ("", _MD_TICK):
                _md_fail("%s: cell %r is neither empty nor the tick %s" % (what, c, _MD_TICK))
            ticks.append(c == _MD_TICK)
        trows.append((keys[0], keys[1], ticks))
    facts["readme_transport_header"] = header
    facts["readme_transport_rows"] = trows
    L.append("(* section \"Transport\" *)")
    L.append("Record md_transport_row := { mdt_local : string; mdt_peer : string; mdt_ticks : list bool }.")
    L.append("Definition md_transport_key_columns : list string := %s." % _strlist(header[:2]))
    L.append("Definition md_transport_columns : list string := %s." % _strlist(header[2:]))
    L.append("Definition md_transport_rows : list md_transport_row :=\n  [ %s ]." % ";\n    ".join(
        "{| mdt_local := %s; mdt_peer := %s; mdt_ticks := [%s] |}" % (coq_string(a), coq_string(b), "; ".join("true" if t else "false" for t in ts))
        for a, b, ts in trows))

    # --- "Ciphers": |  | <columns> | ; first cell a plain name, the others `code` spans (the marks) or empty; then the legend line
    what = "Ciphers table"
    header, body, other = _md_table(_md_section(lines, "Ciphers"), what)
    if len(header) < 2 or header[0] != "" or any(not h for h in header[1:]):
        _md_fail("%s: expected an untitled name column and titled columns; header %r" % (what, header))
    crows = [(_md_ident(r[0], what), [_md_code_spans(c, what) for c in r[1:]]) for r in body]
    if len(other) != 1 or not re.fullmatch(r"(?:`\w+`\s+for\s+\w+\s*)+", other[0]):
        _md_fail("%s: expected exactly one legend line of the form \"`X` for word ...\" next to the table, found %r" % (what, other))
    legend = re.findall(r"`(\w+)`\s+for\s+(\w+)", other[0])
    facts["readme_cipher_columns"] = header[1:]
    facts["readme_cipher_rows"] = crows
    facts["readme_cipher_legend"] = legend
    L.append("\n(* section \"Ciphers\" *)")
    L.append("Record md_cipher_row := { mdc_name : string; mdc_cells : list (list string) }.")
    L.append("Definition md_cipher_columns : list string := %s." % _strlist(header[1:]))
    L.append("Definition md_cipher_rows : list md_cipher_row :=\n  [ %s ]." % ";\n    ".join(
        "{| mdc_name := %s; mdc_cells := [%s] |}" % (coq_string(nm), "; ".join(_strlist(c) for c in cells)) for nm, cells in crows))
    L.append("Definition md_cipher_legend : list (string * string) := %s." % _md_pairs(legend))

    # --- the `> key: text` notes of the configuration file, with their `> > subkey: text` lines, in README order
    notes, where = [], {}
    for i, ln in enumerate(lines):
        m = re.fullmatch(r"\s*>\s*(>\s*)?([A-Za-z_]\w*):\s*(.*)", ln)
        if not m:
            if ln.lstrip().startswith(">"):
                _md_fail("config notes: quoted line is not of the form `> key: text` / `> > key: text`: %r" % ln)
            continue
        nested, key, text = bool(m.group(1)), m.group(2), re.sub(r"\s+", " ", m.group(3)).strip()
        if nested:
            if not notes:
                _md_fail("config notes: `> > %s` before any `> key`" % key)
            notes[-1][2].append((key, text))
        else:
            if key in where:
                _md_fail("config notes: `> %s:` documented twice" % key)
            where[key] = i
            notes.append((key, text, []))
    if not notes:
        _md_fail("config notes: no `> key: text` line")
    facts["readme_config_notes"] = notes
    L.append("\n(* the `> key: text` notes under \"How to run\" and their `> > key: text` sub-notes *)")
    L.append("Record md_note := { mdn_key : string; mdn_text : string; mdn_subkeys : list (string * string) }.")
    L.append("Definition md_config_notes : list md_note :=\n  [ %s ]." % ";\n    ".join(
        "{| mdn_key := %s; mdn_text := %s; mdn_subkeys := %s |}" % (coq_string(k), coq_string(t), _md_pairs(sub)) for k, t, sub in notes))

    # --- `> protocol: "a" | "b" | ..`
    if "protocol" not in where:
        _md_fail("config notes: no `> protocol:` line")
    ptext = [t for k, t, _ in notes if k == "protocol"][0]
    popts = []
    for part in ptext.split("|"):
        m = re.fullmatch(r"\s*\"([^\"]+)\"\s*", part)
        if not m:
            _md_fail("`> protocol:` line is not `\"name\" | \"name\" ..`: %r" % ptext)
        popts.append(m.group(1))
    facts["readme_protocol_options"] = popts
    L.append("\n(* `> protocol:` *)")
    L.append("Definition md_protocol_options : list string := %s." % _strlist(popts))

    # --- the numbered list under `> mode:`:  N. `who`: options are "a"(default), "b", .. <rest>   |   N. `who`: <rest>
    if "mode" not in where:
        _md_fail("config notes: no `> mode:` line")
    items = []
    for ln in lines[where["mode"] + 1:]:
        if not ln.strip():
            continue
        if ln.lstrip().startswith(">") or re.match(r"#{1,6}\s", ln):
            break
        m = re.fullmatch(r"\s*\d+\.\s+(.*)", ln)
        if m:
            items.append(m.group(1))
        elif items:
            items[-1] += " " + ln.strip()       # a wrapped line of the same item
        else:
            _md_fail("`> mode:` is not followed by a numbered list: %r" % ln)
    if not items:
        _md_fail("`> mode:` is not followed by a numbered list")
    mitems = []
    for it in items:
        it = re.sub(r"\s+", " ", it).strip()
        m = re.fullmatch(r"`([^`]+)`:\s*(.*)", it)
        if not m:
            _md_fail("mode list item is not \"`who`: text\": %r" % it)
        who, text = m.group(1), m.group(2)
        opts = []
        if text.startswith("options are"):
            text = text[len("options are"):]
            while True:
                mo = re.match(r"\s*\"([^\"]*)\"\s*(\(default\))?\s*(?:,|$)", text)
                if not mo:
                    break
                opts.append((mo.group(1), bool(mo.group(2))))
                text = text[mo.end():]
            if not opts:
                _md_fail("mode list item %r: `options are` is not followed by \"name\"[(default)], .." % who)
        mitems.append((who, opts, text.strip()))
    facts["readme_mode_items"] = mitems
    L.append("\n(* the numbered list under `> mode:`; an option is (name, carries \"(default)\") *)")
    L.append("Record md_mode_item := { mdm_who : string; mdm_options : list (string * bool); mdm_rest : string }.")
    L.append("Definition md_mode_items : list md_mode_item :=\n  [ %s ]." % ";\n    ".join(
        "{| mdm_who := %s; mdm_options := [%s]; mdm_rest := %s |}" % (
            coq_string(w), "; ".join("(%s, %s)" % (coq_string(o), "true" if d else "false") for o, d in opts), coq_string(rest))
        for w, opts, rest in mitems))

    header_txt = ("(* GENERATED by tools/gen_from_source.py from /repo's working tree (README.md) -- do not edit.\n"
                  "   The README's markdown as data: table cells, list items and notes as the text they are; a Transport cell is\n"
                  "   `true` for the tick and `false` for an empty cell.  Nothing is interpreted or corrected here. *)\n"
                  "From Coq Require Import String List Bool.\nImport ListNotations.\nOpen Scope string_scope.\n\n")
    return header_txt + "\n".join(L) + "\n", facts


def write_if_changed(path, content):
    try:
        if open(path, encoding="utf-8").read() == content:
            return False
    except FileNotFoundError:
        pass
    os.makedirs(os.path.dirname(path), exist_ok=True)
    with open(path, "w", encoding="utf-8") as f:
        f.write(content)
    return True


def main():
    facts = {}
    errors = []
    for name, fn in [("Params", gen_params), ("Tables", gen_tables), ("Shared", gen_shared), ("ConfigTables", gen_config),
                     ("ExitPaths", gen_exit_paths), ("LoopShapes", gen_loop_shapes), ("UdpAdapters", gen_udp_adapters),
                     ("Readme", gen_readme)]:
        try:
            text, fc = fn()
            facts.update(fc)
            write_if_changed(os.path.join(OUT, name + ".v"), text)
        except AnchorMissing as e:
            errors.append("[%s] %s" % (name, e))
    if "--json" in sys.argv:
        json.dump({"facts": facts, "errors": errors}, sys.stdout, default=str)
        print()
    for e in errors:
        print("ANCHOR-MISSING: " + e, file=sys.stderr)
    sys.exit(2 if errors else 0)


if __name__ == "__main__":
    main()
