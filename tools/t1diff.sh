#!/bin/sh
# developer helper: t1diff.sh <component> [tier] [seed]  -- run harness gen + model, tabulate mismatching op results
set -e
C=$1; T=${2:-quick}; S=${3:-1}
# VERIF_ROOT / VERIF_HARNESS: use another tree's modelrun / harness binary (e.g. a worktree with its own cargo target dir)
R=${VERIF_ROOT:-/verif}
W=$R/.cache/t1diff; rm -rf $W; mkdir -p $W
H=${VERIF_HARNESS:-$R/.cache/target/debug/verif-harness}
$H gen $C $T $S $W/cases
split -n l/16 $W/cases $W/p.
for f in $W/p.??; do VERIF_PRIMSERVER="$H primserver" $R/ocaml/modelrun $f > $f.out & done; wait
cat $W/p.?? | awk -F'\t' '{print $NF}' > $W/impl
cat $W/p.??.out > $W/model
wc -l $W/cases
paste -d'\n' $W/impl $W/model | awk '{gsub(/ERR [A-Za-z0-9_]+/,"ERR")} NR%2==1{a=$0} NR%2==0{ if (a!=$0) {n++; if (n<=2000) {na=split(a,x," \\| "); nb=split($0,y," \\| "); for(i=1;i<=na;i++) if (x[i]!=y[i]) {print substr(x[i],1,60) "  ||  " substr(y[i],1,60); break}}}} END{print n+0" mismatches"}' | sort | uniq -c | sort -rn | head -${4:-30}
# direct oracles of ./check on the implementation column (never PANIC, @x/@p/@n, RT-BAD, ORACLE-BAD): last line = summary
SHOW=${SHOW:-3} python3 $(dirname $0)/t1oracle_cases.py $W/cases | tail -n 4 | cut -c1-400
