#!/bin/sh
# try_seed.sh <patch.diff> <Cxx> [Cyy...] : apply a seeded change to /repo, run the checks, undo it.
P=$1; shift
cd /repo || exit 2
git diff --quiet || { echo "/repo not clean"; exit 2; }
git apply "$P" || { echo "patch does not apply"; exit 2; }
for c in "$@"; do
  echo "== $c"; (cd /verif && ./check $c 2>&1 | grep -E "^VIOLATION|^KNOWN|violations" | head -6)
  for f in $(ls /verif/replays/$c-*.json 2>/dev/null | head -1); do python3 - "$f" <<'PY'
import json,sys
o=json.load(open(sys.argv[1])); print("   replay:", o.get('kind'), o.get('component'), str(o.get('detail'))[:300]); print("   case:", [str(a)[:70] for a in (o.get('case') or [])][:8]); print("   broken:", [b[:160] for b in o.get('broken_obligations',[])][:2])
PY
  done
done
git -C /repo checkout -- . ; cd /verif && git checkout -- evidence 2>/dev/null
